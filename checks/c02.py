"""C02 - the parser builds the tree the VCL grammar and the precedence table dictate.

proof  : coq/Props/C02.v over Model/Parse*.v (tables = documented tables; yield; uniqueness of parse
         on canonical trees; literal lemmas; totality / crash freedom exported to C01)
tie    : T  Gen/TokenTypes.v, Gen/ParserTables.v regenerated from token/token.go, parser/parser.go,
            parser/expression_parser.go, parser/helper.go
         C  extracted model (build/modelrun_parse) vs the real parser (build/implrun parsetree) on the
            significant token stream the real lexer produces: every .vcl of the repository, grammar
            programs and snippets, generated expressions (depth <= 6 / 10), all operator pairs x nesting x
            parentheses, INT64 boundary literals, every escape form, if / switch shapes; and a malformed
            stream (token deletions / insertions / swaps / replacements, served to the real parser through a
            slice Tokenizer): same tree or same error class on the same token.
oracle : on the implementation alone: for generated expressions the Go tree equals the tree the
         generator intended (gen/parsegen.py, from the documented precedence table).
"""
import os
import re
import vcommon as V
from gen import vclgen, parsegen

FLOAT_RE = re.compile(r'\(float "([0-9a-f]*)" (x[0-9a-f]{16})\)')


def strip_bits(x):
    """drop the IEEE bits of FLOAT nodes (the model does not carry the float value)"""
    return FLOAT_RE.sub(r'(float "\1")', x) if "(float " in x else x

INT_RE = re.compile(r'\(int (-?[0-9]+) "([0-9a-f]*)"\)')

DIRECTED = [
    # if / else if / elseif / elsif chains
    ("vcl", 'sub vcl_recv { if (a) { esi; } }'),
    ("vcl", 'sub vcl_recv { if (a) { esi; } else { restart; } }'),
    ("vcl", 'sub vcl_recv { if (a) { } else if (b) { } else if (c) { } else { } }'),
    ("vcl", 'sub vcl_recv { if (a) { } elseif (b) { } elsif (c) { } else if (d) { } }'),
    ("vcl", 'sub vcl_recv { if (a) { if (b) { } else { if (c) { } elsif (d) { } } } else { } }'),
    ("vcl", 'sub vcl_recv { if (a == "x" && (b ~ "y" || !c)) { set req.http.A = "1" "2" + var.s; } }'),
    # switch shapes
    ("vcl", 'sub vcl_recv { switch (req.http.A) { case "a": break; } }'),
    ("vcl", 'sub vcl_recv { switch (req.http.A) { case "a": esi; fallthrough; case ~ "b": break; default: break; } }'),
    ("vcl", 'sub vcl_recv { switch (req.http.A) { default: break; case "a": break; } }'),
    ("vcl", 'sub vcl_recv { switch (std.tolower(req.http.A)) { case "a" "b": break; } }'),
    ("vcl", 'sub vcl_recv { switch ("lit") { case "a": { esi; } break; } }'),
    ("vcl", 'sub vcl_recv { switch (true) { case "a": if (x) { esi; } break; } }'),
    ("vcl", 'sub vcl_recv { switch (x) { case "a": } }'),
    ("vcl", 'sub vcl_recv { switch (x) { case "a": esi; } }'),
    ("vcl", 'sub vcl_recv { switch (x) { } }'),
    ("vcl", 'sub vcl_recv { switch (x) { case "a": break; case "a": break; } }'),
    ("vcl", 'sub vcl_recv { switch (x) { case "a%20b": break; case "a b": break; } }'),
    ("vcl", 'sub vcl_recv { switch (x) { case ~"a": break; case "a": break; } }'),
    ("vcl", 'sub vcl_recv { switch (x) { default: break; default: break; } }'),
    ("vcl", 'sub vcl_recv { switch (x) { case "a": break; default: fallthrough; } }'),
    ("vcl", 'sub vcl_recv { switch (x) { case "a": fallthrough; } }'),
    ("vcl", 'sub vcl_recv { switch (1) { case "a": break; } }'),
    ("vcl", 'sub vcl_recv { { break; } }'),
    ("vcl", 'sub vcl_recv { break; }'),
    # statements
    ("snippet", 'set req.http.a = (req.http.b)("y");'),
    ("snippet", 'error; error 404; error 404 "x" "y"; error var.i; error std.atoi("1") "m";'),
    ("snippet", 'return; return(pass); return pass; return (a == b); return (a;'),
    ("snippet", 'call f; call f(); call f(a); call f(a, b "c",);'),
    ("snippet", 'declare local var.x STRING; declare local var.y INTEGER = -9223372036854775808;'),
    ("snippet", 'declare nonlocal var.x STRING;'),
    ("snippet", 'goto a; a: b:c: esi;'),
    ("snippet", 'include "x"; include "y" esi;'),
    ("snippet", 'esi; foo'),
    ("snippet", 'foo'),
    ("snippet", 'switch (x) { case "a": break; }'),
    ("snippet", 'synthetic {"a"} {x"b"x} "c%20";'),
    ("snippet", 'synthetic.base64 "YQ==";'),
    ("snippet", 'log "a" + -1 + !b + 10% + 1.5s;'),
    ("snippet", 'set var.i = 0x; set var.f = 1e; set var.f = 1e999; set var.t = 5ms;'),
    ("snippet", 'std.collect(req.http.A, ","); f();'),
    # declarations
    ("vcl", 'acl a { "1.2.3.4"; !"10.0.0.0"/8; {"::1"}/128; ! {x"fe80::"x}; }'),
    ("vcl", 'acl a { "1.2.3.4"/99999999999999999999; }'),
    ("vcl", 'backend b { .host = "h"; .port = "80"; .probe = { .request = "GET /" "Host: x"; .interval = 1s; .probe = { } } }'),
    ("vcl", 'director d random { .quorum = 20%; { .backend = b; .weight = 1; } { } }'),
    ("vcl", 'table t { } table u STRING { "a": "b", {"c"}: d, "e": 1.5, "f": 2, "g": 3s, "h": true }'),
    ("vcl", 'table t { "a": "b" "c": "d" }'),
    ("vcl", 'sub f(STRING a, INTEGER b,) BOOL { return true; } sub g() { } sub h STRING { return "x"; }'),
    ("vcl", 'penaltybox p { } ratecounter r { esi; }'),
    ("vcl", 'import x; include "y"; include "z"'),
    ("vcl", 'pragma optional_param geoip_opt_in true; C!\nW!\nsub vcl_recv { }'),
    ("auto", ''), ("auto", 'esi;'), ("auto", 'sub vcl_recv { }'), ("auto", '# only a comment\n'),
]


def corpus_sources():
    d = os.path.join(V.VERIF, "corpus", "C02")
    out = []
    if os.path.isdir(d):
        for fn in sorted(os.listdir(d)):
            if fn.endswith(".vcl"):
                mode = fn.split("_", 1)[0]
                if mode not in ("vcl", "snippet", "auto", "expr"):
                    mode = "auto"
                verdict = fn.split("_", 2)[1] if fn.count("_") >= 2 else ""
                # <mode>_ok_*: must parse; <mode>_err_*: must be rejected (intended result "ERR"; not in expr mode,
                # where an expression prefix parses and the rest is reported as unread)
                must_err = verdict == "err" and mode != "expr"
                out.append((mode, open(os.path.join(d, fn), "rb").read(), "corpus/" + fn,
                            "ERR" if must_err else None, must_err, verdict == "ok"))
    return out


def mutate_tokens(rng, toks, pool):
    """token-level malformation: (new token list, kind)"""
    t = list(toks)
    k = rng.random()
    if not t:
        return [rng.choice(pool)], "insert"
    if k < 0.3:
        i = rng.randrange(len(t))
        del t[i]
        return t, "delete"
    if k < 0.5:
        i = rng.randrange(len(t) + 1)
        t.insert(i, rng.choice(pool if rng.random() < 0.5 else toks))
        return t, "insert"
    if k < 0.65:
        i = rng.randrange(len(t))
        t[i] = rng.choice(pool if rng.random() < 0.5 else toks)
        return t, "replace"
    if k < 0.75 and len(t) > 1:
        i = rng.randrange(len(t) - 1)
        t[i], t[i + 1] = t[i + 1], t[i]
        return t, "swap"
    if k < 0.85:
        i = rng.randrange(len(t))
        t.insert(i, t[i])
        return t, "dup"
    if k < 0.95:
        return t[: rng.randrange(len(t))], "truncate"
    i = rng.randrange(len(t))
    j = min(len(t), i + rng.randint(2, 5))
    return t[:i] + t[j:], "delete-run"


# ---------------------------------------------------------------- comments (Parser.ReadPeek, Model/ParseComments.v)
COMMENT_SEPS = [" /* c%d */ ", " // c%d\n", "\n# c%d\n", "\n\n\n/* c%d */\n\n", " /* c%d */ /* d */ ", "\n// c%d\n// e\n",
                "\n\n/* c%d */ ", " /* c%d */\n\n\n"]


COMMENT_DIRECTED = [
    'sub vcl_recv {\n  // a\n  set req.http.X = "a" /* c1 */ + /* c2 */ "b"; // tr\n\n\n  # lead2\n  esi;\n}\n// end\n',
    'pragma optional_param /* in */ geoip_opt_in true;\nsub vcl_recv { }\n',
    'pragma optional_param x\n// never closed',
    'set req.http.A = "x"; // t1\n// final\n',
    'sub vcl_recv {\n if (/* a */ req.http.A /* b */ ) /* c */ { /* d */ esi; /* e */ } /* f */ else /* g */ { }\n /* h */ }\n',
    'sub vcl_recv {\n call /* x */ foo /* y */ ; \n return /* r1 */ ( /* r2 */ lookup /* r3 */ ) /* r4 */ ; /* r5 */\n }\n',
    'acl a { /* 1 */ "1.2.3.4" /* 2 */ / /* 3 */ 8 /* 4 */ ; /* 5 */ }\ntable t { /*6*/ "a" /*7*/ : /*8*/ "b" /*9*/ , /*10*/ }\n',
    'sub vcl_recv {\n switch /*1*/ ( /*2*/ req.http.A /*3*/ ) /*4*/ { /*5*/ case /*6*/ "a" /*7*/ : /*8*/ esi; /*9*/ break /*10*/ ; /*11*/ default /*12*/ : /*13*/ break; /*14*/ } /*15*/\n}\n',
    'sub vcl_recv {\n set req.http.A = foo( /*1*/ "a" /*2*/ , /*3*/ "b" /*4*/ ) /*5*/ ; \n set req.http.B = ! /*6*/ req.http.C /*7*/ ; set /*8*/ req.http.D /*9*/ = /*10*/ ( /*11*/ "a" /*12*/ ) /*13*/ ; }\n',
    'sub f { /* c */ g(x); }',
    '\n\n\n# only a comment\n\n',
    'sub f {\n\n\n\n  esi;\n\n  // x\n\n\n  esi; # C!\n  #FASTLY recv\n\n  esi;\n}\n',
    'sub f { { { { /* deep */ } } /* up */ } }',
    '} } /* negative nest */ { ',
    'sub f(STRING p /* c */ , INTEGER q) { }',
    'sub f { if (a) { } /* e0 */ else /* g */ if (b) { }\n // l\n else\n // m\n if (c) { } elseif /* n */ (d) { } }',
    'table u STRING { "a": "b",\n/* c7 */\n{"c"}: d }',
    'sub f { set req.http.A = g(x /* c */ , y); g(x) /* c */ ; call g /* c */ (); }',
]


def commentize(rng, text, p=0.25):
    """put comments (and line feeds) into the white space of a source text, outside string literals"""
    out, i, n, k = [], 0, len(text), 0
    while i < n:
        c = text[i]
        if c == '"':
            j = text.find('"', i + 1)
            j = n if j < 0 else j + 1
            out.append(text[i:j]); i = j
        elif c == "{" and re.match(r'\{[A-Za-z0-9_]*"', text[i:i + 40]):
            m = re.match(r'\{([A-Za-z0-9_]*)"', text[i:i + 40])
            j = text.find('"' + m.group(1) + "}", i + len(m.group(0)))
            j = n if j < 0 else j + len(m.group(1)) + 2
            out.append(text[i:j]); i = j
        elif c == "#" or text.startswith("//", i):
            j = text.find("\n", i)
            j = n if j < 0 else j + 1
            out.append(text[i:j]); i = j
        elif text.startswith("/*", i):
            j = text.find("*/", i + 2)
            j = n if j < 0 else j + 2
            out.append(text[i:j]); i = j
        elif c in " \t\n":
            j = i
            while j < n and text[j] in " \t\n":
                j += 1
            if rng.random() < p:
                k += 1
                out.append(rng.choice(COMMENT_SEPS) % k)
            else:
                out.append(text[i:j])
            i = j
        else:
            out.append(c); i += 1
    return "".join(out)


OPERAND_TYPES = {"STRING", "INT", "FLOAT", "RTIME", "TRUE", "FALSE", "PERCENT", "CLOSE_LONG_STRING", "IDENT"}


def do_comments(ctx, model, sources, st):
    """the decorated stream of the real parser (Leading comments with PrefixedLineFeed / PreviousEmptyLines, Nest,
    PreviousEmptyLines of every token that becomes curToken) must be the one of Model/ParseComments.v on the raw
    token stream of the real lexer; then the census of the real tree: every comment of the decorated stream in
    exactly one Leading / Infix / Trailing list of the tree"""
    impl = [os.path.join(V.BUILD, "implrun"), "parsecomments"]
    irep = V.run_batch(impl, [s.hex() for _, s in sources], hang_s=10)
    keep, mreq = [], []
    for (label, s), rep in zip(sources, irep):
        if rep is None or rep.count(" | ") != 2 or rep.startswith(("hang", "died", "panic", "bad", "skipped")):
            ctx.violation("the parser %s while its comment placement is read (%s)" % ((rep or "gives no reply").split(" ")[0], label),
                          {"source_hex": s.hex()[:4000], "reply": (rep or "")[:400]}, {"kind": "impl-" + (rep or "none").split(" ")[0]})
            continue
        raw, dec, tree = rep.split(" | ")
        keep.append((label, s, raw, dec, tree))
        mreq.append("comments %s -" % raw)
    mrep = V.run_batch([model], mreq, hang_s=120, mem_kb=8_000_000)
    for (label, s, raw, dec, tree), mr in zip(keep, mrep):
        st["c_src"] += 1
        if dec != mr:
            ctx.violation("comment attachment / Nest / PreviousEmptyLines of the token stream differ between Parser.ReadPeek and "
                          "Model/ParseComments.v on %s" % label,
                          {"source": s.decode("utf-8", "replace")[:1500], "source_hex": s.hex()[:4000], "raw_tokens": raw[:3000],
                           "impl": dec[:3000], "model": (mr or "")[:3000]})
            continue
        st["c_agree"] += 1
        rt = [t.split(":", 1)[0] for t in raw.split(";")]
        dl = [d.split(":") for d in dec.split(";")]
        ncom = sum(1 for d in dl for c in d[4].split(",") if c)
        st["c_comments"] += ncom
        st["c_maxnest"] = max(st["c_maxnest"], max(int(d[2]) for d in dl))
        st["c_pel"] += sum(1 for d in dl if d[3] != "0") + sum(1 for d in dl for c in d[4].split(",") if c and c.split(".")[2] != "0")
        # source-level reading of "exactly once": the attached comments are all COMMENT tokens of the raw stream
        allc = [str(i) for i, t in enumerate(rt) if t == "COMMENT"]
        att = [c.split(".")[0] for d in dl for c in d[4].split(",") if c]
        if att != allc:
            st["c_stream_lost"] += 1
            ctx.violation("a comment token of the source is attached to no token by Parser.ReadPeek (%s)" % label,
                          {"source": s.decode("utf-8", "replace")[:600], "source_hex": s.hex()[:4000],
                           "lost": [x for x in allc if x not in att][:20]},
                          {"kind": "comment-not-attached", "inside": "pragma" if "PRAGMA" in rt else "other"})
        if tree == "-":
            continue
        st["c_trees"] += 1
        items = [x for x in tree.split(" ", 1)[1].split(",") if x]
        where = {}
        for x in items:
            cid, hold = x[1:].split("@")
            where.setdefault(cid, []).append((x[0], hold))
        for cid in where:
            if cid not in att:
                ctx.violation("the tree carries a comment that Parser.ReadPeek attached to no token (%s)" % label,
                              {"source": s.decode("utf-8", "replace")[:600], "source_hex": s.hex()[:4000], "comment_index": cid})
        st["c_in_tree"] += len(where)
        for i, d in enumerate(dl):
            for c in d[4].split(","):
                if not c:
                    continue
                cid = c.split(".")[0]
                prev = dl[i - 1][0] if i else "^"
                after = "operand" if prev in OPERAND_TYPES else prev
                if cid not in where:
                    st["c_dropped"] += 1
                    key = "%s after %s" % (d[0], after)
                    st["c_drop_sites"][key] = st["c_drop_sites"].get(key, 0) + 1
                    ctx.violation("a comment of the source is in no Leading / Infix / Trailing list of the tree (%s): comment before %s, after %s"
                                  % (label, d[0], prev),
                                  {"source": s.decode("utf-8", "replace")[:800], "source_hex": s.hex()[:4000],
                                   "comment": bytes.fromhex(raw.split(";")[int(cid)].split(":")[1]).decode("utf-8", "replace")},
                                  {"kind": "comment-dropped", "holder": d[0], "after": after})
                elif len(where[cid]) > 1:
                    st["c_dup"] += 1
                    hs = sorted(set(f + "@" + (rt[int(h)] if h.isdigit() else h) for f, h in where[cid]))
                    ctx.violation("a comment of the source is in %d lists of the tree (%s): %s" % (len(where[cid]), label, where[cid]),
                                  {"source": s.decode("utf-8", "replace")[:800], "source_hex": s.hex()[:4000],
                                   "comment": bytes.fromhex(raw.split(";")[int(cid)].split(":")[1]).decode("utf-8", "replace")},
                                  {"kind": "comment-duplicated", "lists": len(where[cid]), "where": ",".join(hs)})


def run(ctx):
    rng = ctx.rng
    thorough = ctx.thorough()
    proved = ctx.prove()
    with V.Lock("build"):
        model = V.driver("parse")
    impl = [os.path.join(V.BUILD, "implrun"), "parsetree"]
    ctx.trusted += [
        "Coq 8.16.1 kernel (coqc; vm_compute for the table obligation over the 87 token types; no native_compute)",
        "axioms: none (Print Assumptions of every theorem of Props/C02.v: Closed under the global context)",
        "extraction: ExtrOcamlBasic only; OCaml 4.13.1; ocaml/common.ml + ocaml/parse_main.ml (token / oracle parsing, projection of Model/Ast.v onto the Go AST)",
        "translator harness/cmd/trans/parse_tables.go (token constants, keywords, precedences, LOWEST..CALL, prefix/infix/postfix registrations with the explicit flag, assignmentOperators, isDeclarationToken -> Gen/TokenTypes.v, Gen/ParserTables.v)",
        "harness/cmd/implrun/parse.go (projection of the Go AST; the significant token stream = real lexer re-run and filtered as Parser.ReadPeek does; slice Tokenizer for the malformed stream; error class from the message prefix)",
        "strconv.ParseFloat is an oracle of the model (accept / reject of the literal handed to it, answered by the Go side); the float VALUE is not modelled",
        "translator harness/cmd/trans/parse_dispatch.go (switch statements of ParseStatement / ParseSnippetVCL / Parse -> Gen/ParserDispatch.v)",
        "harness/cmd/implrun/parse_comments.go (raw lexer tokens, the metas Parser.CurToken() shows, reflection walk over every ast.Meta of the tree)",
        "modelled not verified: Model/Parse*.v is a hand transcription of parser/*.go over token lists (Model/ParseComments.v: ReadPeek over the raw stream; positions, Meta.ID and the tree-level redistribution of comments not modelled), tied by the differential runs below",
        "gen/parsegen.py: the intended tree is computed from a hand copy of the documented precedence table",
    ]

    # ------------------------------------------------------------- phase A: sources
    # (mode, source bytes, label, intended sexp or None / "ERR", has_intent)
    cases = corpus_sources()
    for m, s in DIRECTED:
        cases.append((m, s.encode(), "directed", None, False, False))
    for path, data in vclgen.repo_vcl_files(V.REPO):
        cases.append(("auto", data, path, None, False, False))
    g = vclgen.Gen(rng)
    n_prog = 20000 if thorough else 1500
    for i in range(n_prog):
        k = rng.random()
        if k < 0.35:
            cases.append(("snippet", g.snippet().encode(), "gen-snippet-%d" % i, None, False, True))
        elif k < 0.5:
            # every statement kind of the grammar at the top of a snippet (switch included)
            src = "".join(g.stmt(g.max_depth - 1) for _ in range(rng.randint(1, 5)))
            cases.append(("snippet", src.encode(), "gen-snippet-all-%d" % i, None, False, True))
        else:
            cases.append(("vcl", g.program().encode(), "gen-vcl-%d" % i, None, False, True))
    eg = parsegen.ExprGen(rng)
    n_expr = 300000 if thorough else 15000
    maxd = 10 if thorough else 6
    depth_hist = {}
    for i in range(n_expr):
        d = rng.randint(0, maxd)
        depth_hist[d] = depth_hist.get(d, 0) + 1
        toks, sexp, _ = eg.expression(d)
        eg.eol = rng.choice([None, None, None, "\r\n", "\r", "mixed"])       # line-end style of the whole source
        cases.append(("expr", eg.render(toks).encode(), "gen-expr-d%d%s" % (d, "-eol" if eg.eol else ""), sexp, True, True))
        eg.eol = None
    # literal length / precision: every length up to well beyond the precision limit (independent exact conversion)
    n_lit = 40000 if thorough else 3000
    for label, text, sexp in parsegen.literal_length_cases(rng, n_lit) + parsegen.long_string_cases(rng):
        cases.append(("expr", text.encode(), label, sexp if sexp is not None else "ERR", True, sexp is not None))
    # literal content x line-end style: CR / LF / CRLF / lone CR / tabs / C0 controls / multi-byte runes at the start, middle
    # and end of every literal form, in every string position of the grammar, sources in LF / CRLF / CR / mixed line ends;
    # the oracle is the generator's intended value byte for byte
    n_le = 0
    for label, text, sexp in parsegen.line_end_expr_cases(rng, 400 if thorough else 60):
        cases.append(("expr", text.encode(), label, sexp, True, True))
        n_le += 1
    for label, text, sexp in parsegen.line_end_program_cases(rng, 3000 if thorough else 250):
        cases.append(("vcl", text.encode(), label, sexp, True, True))
        n_le += 1
    # parser state across nesting and sequence: compound constructs nested in each other, names from small pools
    pg = parsegen.ProgGen(rng, eg)
    n_nest = 20000 if thorough else 1200
    for i in range(n_nest):
        toks, sexp = pg.program(rng.choice([2, 3, 3, 4]))
        eg.eol = rng.choice([None, None, None, "\r\n", "\r", "mixed"])
        cases.append(("vcl", eg.render(toks).encode(), "gen-nested-%d%s" % (i, "-eol" if eg.eol else ""), "0 " + sexp, True, True))
        eg.eol = None
    for j, src in enumerate(pg.nested_switch_shapes()):
        cases.append(("vcl", src.encode(), "nested-switch-%d" % j, None, False, True))
    n_pairs = 0
    for label, text, sexp in parsegen.pair_cases():
        cases.append(("expr", text.encode(), label, sexp, True, True))
        n_pairs += 1
    for label, text, sexp in parsegen.int_cases() + parsegen.escape_cases():
        cases.append(("expr", text.encode(), label, sexp if sexp is not None else "ERR", True, sexp is not None))

    outcomes = {"ok": 0, "err": 0}
    err_kinds = {}
    streams = []       # (mode, token list, oracle) of inputs that parse, for the malformed stream (bounded sample)
    pool = {}
    st = {"agree": 0, "intent_ok": 0, "grammar_ok": 0, "n_src": 0, "b_agree": 0, "n_mal": 0, "impl_s": 0.0, "model_s": 0.0,
          "float_nodes": 0, "int_nodes": 0}
    nontrivial = set()
    node_kinds = {}
    import hashlib
    import time as _t

    def h(x):
        return hashlib.blake2b(x.encode(), digest_size=8).digest()

    def do_sources(chunk):
        ireq = ["src %s %s" % (c[0], c[1].hex()) for c in chunk]
        t0 = _t.time()
        irep = V.run_batch(impl, ireq, hang_s=10)
        st["impl_s"] += _t.time() - t0
        mreq, keep = [], []
        for c, rep in zip(chunk, irep):
            m, s, label, intent, has_intent, must_parse = c
            if rep is None or rep.startswith(("hang", "died", "crash", "skipped", "bad", "srcmismatch")) or rep.count(" | ") != 2:
                ctx.violation("the parser %s on %s" % ((rep or "gives no reply").split(" ")[0], label),
                              {"mode": m, "source_hex": s.hex()[:4000], "reply": (rep or "")[:400]},
                              {"kind": "impl-" + (rep or "none").split(" ")[0]})
                continue
            toks, orc, out = rep.split(" | ")
            mreq.append("%s %s %s" % (m, toks or "-", orc or "-"))
            keep.append((c, toks, orc, out))
        t0 = _t.time()
        mrep = V.run_batch([model], mreq, hang_s=120, mem_kb=8_000_000)
        st["model_s"] += _t.time() - t0
        for (c, toks, orc, out), mr in zip(keep, mrep):
            m, s, label, intent, has_intent, must_parse = c
            st["n_src"] += 1
            outcomes["ok" if out.startswith("ok") else "err"] += 1
            if out.startswith("err"):
                k = out.split(" ")[1]
                err_kinds[k] = err_kinds.get(k, 0) + 1
            # literal-value oracle on EVERY tree the Go parser returns: the stored value of each FLOAT / INT node
            # against an independent exact conversion of its source literal
            if out.startswith("ok") and ("(float " in out or "(int " in out):
                for lh, bits in FLOAT_RE.findall(out):
                    st["float_nodes"] += 1
                    exp = parsegen.ref_float_bits(bytes.fromhex(lh).decode("utf-8", "replace"))
                    if exp != bits:
                        ctx.violation("a FLOAT literal does not keep its exact (correctly rounded) value: %s stored as %s, exact %s (%s)"
                                      % (bytes.fromhex(lh).decode("utf-8", "replace"), bits, exp, label),
                                      {"mode": m, "source": s.decode("utf-8", "replace")[:600], "source_hex": s.hex()[:4000],
                                       "literal": bytes.fromhex(lh).decode("utf-8", "replace"), "stored_bits": bits, "exact_bits": exp})
                        break
                for v, lh in INT_RE.findall(out):
                    st["int_nodes"] += 1
                    lit = bytes.fromhex(lh).decode("utf-8", "replace")
                    if int(v) != parsegen.ref_int(lit, False) and not (int(v) == -2 ** 63 and parsegen.ref_int(lit, True) == -2 ** 63):
                        ctx.violation("an INT literal does not keep its exact value: %s stored as %s (%s)" % (lit, v, label),
                                      {"mode": m, "source": s.decode("utf-8", "replace")[:600], "literal": lit, "stored": v})
                        break
            outm = strip_bits(out)      # the model does not carry the float value
            if outm != mr:
                ctx.violation("parse result differs between parser/*.go and Model/Parse*.v on %s" % label,
                              {"mode": m, "source_hex": s.hex()[:4000], "source": s[:300].decode("utf-8", "replace"),
                               "tokens": toks[:3000], "impl": out[:2000], "model": (mr or "")[:2000]})
            else:
                st["agree"] += 1
            if out.startswith("ok"):
                nontrivial.add(h(out))
                tl = toks.split(";") if toks else []
                if len(tl) <= 400 and (len(streams) < 6000 or rng.random() < 0.05):
                    if len(streams) < 6000:
                        streams.append((m, tl, orc))
                    else:
                        streams[rng.randrange(len(streams))] = (m, tl, orc)
                if len(pool) < 20000:
                    for t in tl:
                        pool[t] = pool.get(t, 0) + 1
                if st["n_src"] < 30000:
                    for k in re.findall(r"\((\w+)", out):
                        node_kinds[k] = node_kinds.get(k, 0) + 1
            # direct oracle on the implementation: a program derived from the documented grammar parses
            if must_parse and not has_intent:
                if out.startswith("ok"):
                    st["grammar_ok"] += 1
                else:
                    ctx.violation("the Go parser rejects a program derived from the documented grammar (%s, %s mode): %s" % (label, m, out),
                                  {"mode": m, "source": s.decode("utf-8", "replace")[:1500], "source_hex": s.hex()[:4000],
                                   "impl": out[:300], "model": (mr or "")[:300]},
                                  {"kind": "grammar-rejected", "mode": m, "error": out})
            # direct oracle on the implementation: the generator's intended tree
            if has_intent:
                if intent == "ERR":
                    good = out.startswith("err")
                else:
                    good = (out == ("ok %s 0" % intent if m == "expr" else "ok %s" % intent))
                if good:
                    st["intent_ok"] += 1
                else:
                    ctx.violation("the Go parser does not build the tree the documented grammar dictates (%s)" % label,
                                  {"mode": m, "source": s.decode("utf-8", "replace")[:600], "source_hex": s.hex()[:4000],
                                   "intended": (intent or "")[:2000], "impl": out[:2000], "model": (mr or "")[:2000]})

    # ------------------------------------------------------------- phase C sources: commented programs
    csrc = []
    gen_c = [c for c in cases if c[0] != "expr" and c[2].startswith(("gen-", "nested-"))]
    n_c = 6000 if thorough else 800
    for c in (rng.sample(gen_c, n_c) if len(gen_c) > n_c else gen_c):     # every generator family, commented
        csrc.append((c[2] + "+comments", commentize(rng, c[1].decode("utf-8", "replace"), rng.choice([0.1, 0.25, 0.5])).encode()))
    for c in cases:
        if c[0] != "expr" and not c[2].startswith(("gen-", "nested-")):
            csrc.append((c[2], c[1]))
            if c[2] == "directed":
                csrc.append((c[2] + "+comments", commentize(rng, c[1].decode("utf-8", "replace"), 0.5).encode()))
    for src in COMMENT_DIRECTED:
        csrc.append(("comment-directed", src.encode()))
    n_cases = len(cases)
    n_intent = sum(1 for c in cases if c[4])
    n_grammar = sum(1 for c in cases if c[5] and not c[4])
    sample_cases = [cases[i] for i in (0, n_cases // 3, n_cases // 2, n_cases - 1)]
    CH = 20000
    for i in range(0, n_cases, CH):
        do_sources(cases[i:i + CH])
        if len(ctx.violations) > 50:
            break
    del cases

    # ------------------------------------------------------------- phase B: malformed token streams
    n_mut = 1000000 if thorough else 40000
    poolk = sorted(pool)
    mk = {}
    b_out = {"ok": 0, "err": 0}
    last_b = []
    small = [x for x in streams if len(x[1]) <= 120] or streams

    def do_mutations(count):
        breq, bmeta = [], []
        for i in range(count):
            m, tl, orc = rng.choice(small)
            nt, kind = mutate_tokens(rng, tl, poolk)
            if rng.random() < 0.2:
                nt, k2 = mutate_tokens(rng, nt, poolk)
                kind += "+" + k2
            mk[kind.split("+")[0]] = mk.get(kind.split("+")[0], 0) + 1
            breq.append("toks %s %s" % (m, ";".join(nt)))
            bmeta.append((m, kind))
        t0 = _t.time()
        brep = V.run_batch(impl, breq, hang_s=10)
        st["impl_s"] += _t.time() - t0
        bm, bkeep = [], []
        for (m, kind), q, rep in zip(bmeta, breq, brep):
            if rep is None or rep.startswith(("hang", "died", "crash", "skipped", "bad", "srcmismatch")) or rep.count(" | ") != 2:
                ctx.violation("the parser %s on a malformed token stream (%s)" % ((rep or "gives no reply").split(" ")[0], kind),
                              {"request": q[:4000], "reply": (rep or "")[:400]}, {"kind": "impl-" + (rep or "none").split(" ")[0]})
                continue
            toks, orc, out = rep.split(" | ")
            bm.append("%s %s %s" % (m, toks or "-", orc or "-"))
            bkeep.append((m, kind, toks, out))
        t0 = _t.time()
        bmrep = V.run_batch([model], bm, hang_s=120, mem_kb=8_000_000)
        st["model_s"] += _t.time() - t0
        for (m, kind, toks, out), mr in zip(bkeep, bmrep):
            st["n_mal"] += 1
            b_out["ok" if out.startswith("ok") else "err"] += 1
            if out.startswith("err"):
                k = out.split(" ")[1]
                err_kinds[k] = err_kinds.get(k, 0) + 1
            if strip_bits(out) != mr:
                ctx.violation("parse result on a malformed token stream (%s) differs between parser/*.go and Model/Parse*.v" % kind,
                              {"mode": m, "tokens": toks[:4000], "impl": out[:2000], "model": (mr or "")[:2000]})
            else:
                st["b_agree"] += 1
            nontrivial.add(h(toks))
        last_b[:] = bkeep[-3:]

    if streams:
        done = 0
        while done < n_mut and len(ctx.violations) <= 50:
            k = min(50000, n_mut - done)
            do_mutations(k)
            done += k

    # ------------------------------------------------------------- phase C: comment attachment
    st.update({"c_src": 0, "c_agree": 0, "c_comments": 0, "c_maxnest": 0, "c_pel": 0, "c_trees": 0, "c_in_tree": 0,
               "c_dropped": 0, "c_dup": 0, "c_stream_lost": 0, "c_drop_sites": {}})
    for i in range(0, len(csrc), 5000):
        do_comments(ctx, model, csrc[i:i + 5000], st)
        if len(ctx.violations) > 50:
            break

    if not proved and not ctx.violations:
        ctx.violation("proof obligation of C02 no longer checks: " + (ctx.broken or "Props/C02.v"),
                      {"no_failing_input": True, "broken": ctx.broken,
                       "searched": "%d sources (of which %d with an intended tree) and %d malformed token streams: the Go parser builds "
                                   "the intended trees and agrees with the model on all of them" % (st["n_src"], st["intent_ok"], st["n_mal"])})
    ctx.samples = [{"source": c[1][:200].decode("utf-8", "replace"), "label": c[2]} for c in sample_cases]
    ctx.samples += [{"malformed_tokens": t[:200], "kind": k, "outcome": o[:80]} for _, k, t, o in last_b]
    ctx.coverage.update({
        "evaluations": st["n_src"] + st["n_mal"],
        "distinct_nontrivial": len(nontrivial),
        "sources": st["n_src"], "sources_agree": st["agree"], "source_outcomes": outcomes,
        "with_intended_tree": n_intent, "intended_tree_matches": st["intent_ok"],
        "grammar_programs": n_grammar, "grammar_programs_accepted": st["grammar_ok"],
        "float_nodes_checked_against_exact_conversion": st["float_nodes"], "int_nodes_checked": st["int_nodes"],
        "nested_program_stats": dict(sorted(pg.stats.items())),
        "seconds_in_go_parser": round(st["impl_s"], 1), "seconds_in_extracted_model": round(st["model_s"], 1),
        "line_end_literal_cases": n_le, "operator_pair_cases": n_pairs, "operator_pairs_exhaustive": True,
        "expression_depth_histogram": dict(sorted(depth_hist.items())),
        "comment_sources": st["c_src"], "comment_streams_agree": st["c_agree"], "comments_in_those_sources": st["c_comments"],
        "comment_max_nest": st["c_maxnest"], "comment_nonzero_empty_line_counts": st["c_pel"],
        "comment_trees_walked": st["c_trees"], "comments_found_once_in_tree": st["c_in_tree"] - st["c_dup"],
        "comments_dropped_by_tree(known)": st["c_dropped"], "comments_duplicated_in_tree(known)": st["c_dup"],
        "comment_drop_sites": dict(sorted(st["c_drop_sites"].items())),
        "comments_lost_before_the_tree(known: pragma)": st["c_stream_lost"],
        "malformed_streams": st["n_mal"], "malformed_agree": st["b_agree"], "malformed_outcomes": b_out,
        "mutation_kinds": mk, "error_classes": dict(sorted(err_kinds.items())),
        "node_kinds": dict(sorted(node_kinds.items(), key=lambda kv: -kv[1])[:60]),
        "expr_generator_stats": dict(sorted(eg.stats.items())),
        "program_generator_stats": dict(sorted(g.stats.items())),
    })
    return ctx.finish(
        level="proof",
        rule="theorems of coq/Props/C02.v over Model/Parse*.v (unbounded); correspondence on the token streams of: repository "
             ".vcl files + corpus + directed shapes + grammar programs/snippets + generated expressions with intended trees + "
             "ALL ordered operator pairs x {flat, left paren, right paren} + prefix combinations + INT64 boundary literals + "
             "escape forms (distinct = distinct projected tree); malformed stream = seeded token delete/insert/replace/swap/"
             "dup/truncate mutations of parsed inputs (distinct = distinct token stream)")
