sub vcl_log {
#FASTLY log
  set req.http.W = "1";
  call g;
}
sub vcl_log {
#FASTLY log
  set req.http.V = f();
}
sub g {}
sub f STRING {
  set req.http.V = f();
  return "x";
}
