set req.http.T = "1";
if (req.http.B) { if (req.http.C) { include "s"; } }
