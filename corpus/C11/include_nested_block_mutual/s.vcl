if (req.http.A) {
  include "t";
}
