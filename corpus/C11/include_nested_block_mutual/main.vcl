sub vcl_recv {
#FASTLY recv
  include "s";
}
