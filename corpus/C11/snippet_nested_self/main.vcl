sub vcl_recv {
#FASTLY recv
  include "snippet::guard";
}
