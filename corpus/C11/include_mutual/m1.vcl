sub a {}
include "m2";
