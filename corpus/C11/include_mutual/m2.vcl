include "m1";
