include "m1";
