sub vcl_recv {
#FASTLY recv
  error;
}
