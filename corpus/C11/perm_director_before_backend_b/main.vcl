backend F_b1 { .host = "example.com"; .port = "80"; }
director d0 random {
  .quorum = 50%;
  { .backend = F_b1; .weight = 1; }
}
sub vcl_recv {
#FASTLY recv
  set req.backend = d0;
}
