set req.http.S = "1";
