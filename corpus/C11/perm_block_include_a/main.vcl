sub vcl_fetch {
#FASTLY fetch
  include "sm1";
  set beresp.ttl = 10s;
}
sub vcl_deliver {
#FASTLY deliver
  include "sm1";
  set resp.http.X = "1";
}
