// falco-ignore-next-line
sub math {
  set req.http.A = "1";
}
sub vcl_recv {
#FASTLY recv
  call math;
}
