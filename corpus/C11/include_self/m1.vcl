include "m1";
