sub vcl_recv {
#FASTLY recv
}
include "m1";
