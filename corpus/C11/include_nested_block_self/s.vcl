if (req.http.A) {
  include "s";
}
