set req.http.S = "1";
include "sm1";
