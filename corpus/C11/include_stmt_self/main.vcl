sub vcl_recv {
#FASTLY recv
  include "sm1";
}
