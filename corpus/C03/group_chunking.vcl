sub vcl_recv {
  if (!(req.http.A && req.http.B)) { esi; }
  set var.b = !(req.http.A);
  set var.b = ((req.http.A) && (req.http.B ~ "x"));
  set var.b = a == (b);
  set var.b = (a && (b || c));
  add resp.http.Set-Cookie = !((!now) && ":*%41" + var.s + req.backend == obj.status);
}
