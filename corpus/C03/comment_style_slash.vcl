# one sharp
sub vcl_recv {
#FASTLY recv
  # inner
  esi; # trailing
}
