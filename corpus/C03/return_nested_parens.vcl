sub f BOOL {
  return ((a));
  return ((a) + "x");
}
sub vcl_recv {
  return ((lookup));
}
