sub vcl_recv {
  switch (req.url) {
  case "a" "b":
    break;
  case "c" + "d":
    break;
  case "g" req.http.H if(req.http.I, "j", "k"):
    break;
  default:
    break;
  }
}
