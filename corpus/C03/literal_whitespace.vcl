sub vcl_error {
  synthetic {"<pre> 
x	
   


y "};
  set req.http.X = "a 
 b	";
  log {xyz"q
	r "xyz};
}
