sub vcl_recv {
  switch (digest.hash_md5(req.url.path + "a%25b" "c", "x")) {
  case "a":
    break;
  default:
    break;
  }
}
