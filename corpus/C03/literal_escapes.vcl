table t {
  "a%20b": "c%25d",
  "q%22": "x"
}
include "a%20b";
director d client {
  .key = "a%25b";
  { .backend = F_a; .weight = 1; }
}
