sub vcl_recv {
  error;
  error 404;
}
