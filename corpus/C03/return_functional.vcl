sub f BOOL {
  return req.http.a == "b";
}
sub g STRING {
  return "a" req.http.b + "c";
}
