sub vcl_error {
  synthetic {"<html>



  <body>
</html>"};
  if (req.http.A == {"x
  y"} && req.http.B) { esi; }
}
