sub vcl_recv {
  set req.http.X = "a" + 1;
  set req.http.Y = req.http.A + (req.http.B);
  set req.http.Z = "a" + -1 + now + 5m;
  synthetic resp.http.Vary + "%25" + 1e-3 + ";";
}
