sub vcl_recv {
  set var.p = 10%;
  set var.q = 10 /* c */ %;
  set req.http.X = "a" + 10% + "b";
  log 5% "x";
}
director d random {
  .quorum = 50%;
  { .backend = F_a; .weight = 1; }
}
