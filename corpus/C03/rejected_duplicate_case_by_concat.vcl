sub vcl_recv {
  switch (req.url) {
  case "a" "b":
    break;
  case "a" + "b":
    break;
  }
}
