sub vcl_recv {
#FASTLY recv
  switch (req.http.A) {
  case /* y */ "a":
    esi;
    break;
  case "a":
    break;
  }
}
