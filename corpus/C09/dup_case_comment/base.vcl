sub vcl_recv {
#FASTLY recv
  switch (req.http.A) {
  case "a":
    esi;
    break;
  case "a":
    break;
  }
}
