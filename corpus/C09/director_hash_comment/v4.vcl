backend example { // a
  /* b */
  .host = "127.0.0.1"; .port = "__PORT__"; .ssl = false; }
backend second { .host = "localhost"; # c
 .port = "__PORT__"; .ssl = false; }
backend third { .host = "127.0.0.1"; .port = "__PORT__"; .ssl = false; .host_header = "third.example"; /* d */
}
director dir1 hash {
  .quorum = 20%;
  { .backend = example; .weight = 1; }
  { .backend = second; .weight = 1; }
  { .backend = third; .weight = 1; }
}
sub vcl_recv {
#FASTLY recv
  set req.backend = dir1;
  return (lookup);
}
sub vcl_fetch {
#FASTLY fetch
  return (deliver);
}
