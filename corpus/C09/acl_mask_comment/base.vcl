acl office {
  "10.0.0.0"/8;
  !"10.1.0.0"/16;
}
sub vcl_recv {
#FASTLY recv
  if (client.ip ~ office) { esi; }
}
