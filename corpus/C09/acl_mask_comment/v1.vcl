acl office {
  "10.0.0.0"/8 /* office */;
  !"10.1.0.0"/ /* m */ 16;
}
sub vcl_recv {
#FASTLY recv
  if (client.ip ~ office) { esi; }
}
