sub vcl_recv {
#FASTLY recv
  set req.http.Y = std.strlen(req.http.A, "extra");
}
