sub vcl_recv {
#FASTLY recv
  set req.http.Y = std.strlen /* len */ (req.http.A, "extra");
}
