sub vcl_recv {
#FASTLY recv
  set req.http.Y = /* len */ std.strlen(req.http.A, "extra");
}
