backend example { .host = "127.0.0.1"; .port = "__PORT__"; .ssl = false; }
sub vcl_recv {
#FASTLY recv
  set req.backend = example;
  return (lookup /* cache */);
}
sub vcl_fetch {
#FASTLY fetch
  return ( /* c */ deliver);
}
