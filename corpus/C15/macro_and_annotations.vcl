# @scope: recv
sub custom_a {
#FASTLY recv
  # falco-ignore-next-line
  esi; // falco-ignore
}
