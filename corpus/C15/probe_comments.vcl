backend b {
  .host = "a";
  .probe = /* c1 */ {
    .request = "GET";
    # c2
  } // c3
}
