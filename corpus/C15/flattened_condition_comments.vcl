sub vcl_recv {
  if (/* a */ req.http.A /* b */ && /* c */ req.http.B /* d */ || /* e */ req.http.D /* f */ && (req.http.E /* g */ || req.http.F) /* h */) {
    esi;
  }
}
