sub f {
  if ( /*a*/ ( /*b*/ x ) /*d*/ && /*e*/ !( /*f*/ y || z ) /*h*/ ) { esi; }
  if (x || (!now) /* i */) { esi; }
}
