sub vcl_recv {
  if (req.http.A) {
    esi;
  } /* a */ // b
  else if (req.http.B) {
    esi;
  } /* c */ /* d */
  else if (req.http.C) {
    esi;
  } // see /* RFC 7234 */
  elseif (req.http.D) {
    esi;
  } # set req.http.X = "1"; /* tmp */
  else {
    esi;
  }
}
