sub vcl_recv {
  switch (req.url) {
  case /* c1 */ ~ "b":
    break;
  case /* c2 */ "c" /* c3 */: // c4
    break;
  default /* c5 */:
    break;
  }
}
