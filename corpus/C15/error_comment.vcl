sub vcl_recv {
  error /* c */ ;
  error /* d */ 404 /* e */ "x" /* f */; // g
  error /* h */ /* i */;
  esi /* j */;
}
