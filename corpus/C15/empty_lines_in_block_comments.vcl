/* a



b */
sub vcl_recv {
  /* c



  d */
  set /* e


 f */ req.http.X = "1"; /* g


  h */
}
/* i



j */
