sub vcl_recv {
  if (req.http.A) {
    esi;
  } // on the brace line
  # on its own line
  /* and a block */
  else if (req.http.B) {
    esi;
  } # again
  // falco-ignore-next-line
  else {
    esi;
  }
}
