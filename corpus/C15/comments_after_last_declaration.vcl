sub vcl_recv {
  esi;
} // t1 /* x */


// after last
/* another
  two */
