set req.http.X = "1";
