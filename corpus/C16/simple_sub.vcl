sub vcl_recv {
 set req.http.X="1";
}
