set a = {xy"abc"xy}; x
y