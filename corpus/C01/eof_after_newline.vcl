a
