# scope=recv pool=req.max_stale_if_error expect=var.a=5;var.b=-5;var.f=1.500;var.g=-1.500;var.r=10.000;var.q=-10.000;req.max_stale_if_error=7.000
# fixed f0bfb4c: unary minus negated its operand in place (INTEGER, FLOAT, RTIME; also a ctx cell such as req.max_stale_if_error)
sub t_main {
  declare local var.a INTEGER;
  declare local var.b INTEGER;
  declare local var.f FLOAT;
  declare local var.g FLOAT;
  declare local var.r RTIME;
  declare local var.q RTIME;
  set var.a = 5;
  set var.f = 1.500;
  set var.r = 10s;
  set req.max_stale_if_error = 7s;
  set var.b = -var.a;
  set var.g = -var.f;
  set var.q = -var.r;
  set var.q = -req.max_stale_if_error;
  set var.q = -var.r;
}
