# scope=recv pool=re.group.1,req.max_stale_if_error expect=var.a=5;var.s=hello;var.b=6;re.group.1=abc;req.max_stale_if_error=7.000
# fixed 1d26b5e: a parameter whose type already matched was bound to the caller's own value (local, re.group.N or ctx cell)
sub f(INTEGER var.p, STRING var.s) {
  set var.p = 99;
  set var.s = "changed";
}
sub g(INTEGER var.n) INTEGER {
  set var.n += 1;
  return var.n;
}
sub h(RTIME var.t) {
  set var.t = 1s;
}
sub t_main {
  declare local var.a INTEGER;
  declare local var.b INTEGER;
  declare local var.s STRING;
  set var.a = 5;
  set var.s = "hello";
  set req.http.x = "abc-def";
  set req.max_stale_if_error = 7s;
  if (req.http.x ~ "^(abc)-(.*)$") {
    call f(var.a, var.s);
    call f(var.a, re.group.1);
  }
  call h(req.max_stale_if_error);
  set var.b = g(var.a);
}
