# scope=recv pool=req.max_stale_if_error expect=var.a=5;var.b=-5;var.r=10.000;var.q=-7.000;req.max_stale_if_error=7.000
# the operand of unary minus reached through a group, an if() expression, unary plus and a function result is still the variable's own cell
sub idn(INTEGER var.n) INTEGER {
  return var.n;
}
sub t_main {
  declare local var.a INTEGER;
  declare local var.b INTEGER;
  declare local var.c BOOL;
  declare local var.r RTIME;
  declare local var.q RTIME;
  set var.a = 5;
  set var.c = true;
  set var.r = 10s;
  set req.max_stale_if_error = 7s;
  set var.b = -(var.a);
  set var.b = -if(var.c, var.a, 3);
  set var.b = -(if(var.c, var.a, 3));
  set var.b = -+var.a;
  set var.b = -idn(var.a);
  set var.b += -(var.a);
  set var.b -= -(var.a);
  set var.q = -(var.r);
  set var.q = -if(var.c, req.max_stale_if_error, var.r);
  if ((-(var.a)) < -if(var.c, var.a, 1)) {
    set var.b = 0;
  }
}
