# scope=recv pool=- expect=var.k=F_a;var.k2=F_b;var.ip=10.0.0.1
# parameters of every type are passed by value, BACKEND / TIME / IP included, through call and through a functional subroutine
backend F_a { .host = "127.0.0.1"; .port = "80"; }
backend F_b { .host = "127.0.0.2"; .port = "80"; }
sub fk(BACKEND var.p, ACL var.q, TIME var.t, IP var.i) BACKEND {
  set var.p = F_b;
  set var.t = now;
  set var.i = "10.1.1.1";
  return var.p;
}
sub t_main {
  declare local var.k BACKEND;
  declare local var.k2 BACKEND;
  declare local var.acl ACL;
  declare local var.t TIME;
  declare local var.ip IP;
  set var.k = F_a;
  set var.ip = "10.0.0.1";
  call fk(var.k, var.acl, var.t, var.ip);
  set var.k2 = fk(var.k, var.acl, var.t, var.ip);
  call fk(if(req.http.x, var.k2, var.k), var.acl, var.t, var.ip);
}
