sub noisy BOOL {
  log "noisy called";
  return true;
}
sub vcl_recv {
  #FASTLY recv
  set req.http.q = if(noisy(), "t", "f");
  return (lookup);
}
