// @scope: recv
// @suite: noisy
sub test_noisy {
  testing.call_subroutine("vcl_recv");
  assert.equal(req.http.q, "t");
}
