// @scope: recv
// @suite: fold
sub test_fold {
  assert.equal_fold("Ab", "aB");
  set req.http.x = "MiXed";
  assert.equal_fold(req.http.x, "mixed");
}
