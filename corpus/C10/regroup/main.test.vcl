// @scope: recv
// @suite: regroup
sub test_regroup {
  set req.http.a = "newer";
  set req.http.b = "older";
  testing.call_subroutine("vcl_recv");
  assert.equal(req.http.r, "oldY");
}
