sub vcl_recv {
  #FASTLY recv
  if (req.http.b ~ "^(old)") {
    set req.http.seen = "1";
  }
  set req.http.r = re.group.1 + if(req.http.a ~ "^(new)", "Y", "N");
  return (lookup);
}
