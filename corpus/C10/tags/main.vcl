sub vcl_recv {
  #FASTLY recv
  return (lookup);
}
