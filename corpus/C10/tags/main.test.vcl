// @scope: recv
// @tag: prod
sub test_prod { assert.true(true); }
// @scope: recv
// @tag: !prod
sub test_notprod { assert.true(true); }
// @scope: recv
sub test_untagged { assert.true(true); }
// @scope: recv
// @tag: prod, stg
sub test_multi { assert.true(true); }
