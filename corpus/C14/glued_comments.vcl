sub vcl_fetch {
  {
    return(hash /* a */) /* b */;
  }
}
