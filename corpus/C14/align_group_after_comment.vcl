sub vcl_recv {
  set req.backend = F_Host_1;
        #do

  {
  }
  if (a) {
    esi; // x
  } else {
  } // y
}
