backend b {
  .zeta = 1;
  .a = 2;

  # lead
  .connect_timeout = 1s;
  .b = 3;
}
table t {

  # first
  "b": "1",
  "a": "2",
}
