sub vcl_fetch {
}

penaltybox b {
}

acl d1 {
}

acl E400 {
}
