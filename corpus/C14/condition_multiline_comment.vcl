sub vcl_recv {
  if (/* a
      second
	third */ req.http.A && (req.http.B || req.http.C)) {
    esi;
  } else if (req.http.A /* b
   * star
   */ || !(req.http.B && req.http.C) /* c

  d  
 */) {
    esi;
  }
  if (/* e
 f */ req.http.A) {
    esi;
  }
}
