

# c

sub vcl_recv {
}
