backend httpbin_org {
  .share_key = "k";

  .max_tls_version = "1.2";
  ##
  .bypass_local_route_table = false;
}
table t IP {

  "b": "10.0.0.1",
  #//
  "a": "10.0.0.1",
}
