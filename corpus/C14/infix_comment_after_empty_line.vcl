sub vcl_recv {
  if

  /* c */ (req.http.A) {
    esi;
  }
  declare

  /* d */ local var.x STRING;
}
