sub f {
  if (a) {
  } // c1
  if (b) {
  } /* c2 */
  if (a) { } else if (b) { } // c3
  if (a) { } // c5
  else if (b) { } /* c6 */ else { } // c8
}
