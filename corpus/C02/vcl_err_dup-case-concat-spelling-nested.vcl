sub vcl_recv {
  switch (req.http.A) {
    case "x" std.tolower("a" "b") if(req.http.B, "c" + "d", "e"):
      break;
    case "x" std.tolower("a" + "b") if(req.http.B, "c" "d", "e"):
      break;
  }
}
