sub vcl_recv {
  if (req.http.A) {
    esi;
  }
  // before else
  else /* between else and if */ if (req.http.B) {
    esi;
  }
}
