esi;
lbl:
