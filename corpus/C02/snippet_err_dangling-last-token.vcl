esi; restart
