switch (req.http.A) { case "a": break; default: esi; break; }
