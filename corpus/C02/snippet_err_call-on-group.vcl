set req.http.a = (req.http.b)("y");
