sub vcl_recv { switch (x) { case "a": } }
