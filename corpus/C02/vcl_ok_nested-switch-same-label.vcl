sub f { switch (x) { case "a": switch (x) { case "b": break; } break; case "b": break; } }
