a | b
