sub vcl_recv {
  switch (req.http.A) {
    case "a" "b":
      break;
    case "a" + "c":
      break;
    case "ab":
      break;
  }
}
