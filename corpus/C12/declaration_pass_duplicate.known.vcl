# expect: 
# known: {"construct": "diagnostic-of-the-declaration-pass"}
acl a1 { "10.0.0.0"/8; }
# falco-ignore-next-line
acl a1 { "10.0.0.0"/8; }
sub vcl_recv {
  #FASTLY RECV
  if (client.ip ~ a1) { set req.http.K = "v"; }
}
