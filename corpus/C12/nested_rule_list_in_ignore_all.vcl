# expect: subroutine/boilerplate-macro@2 -@9 operator/assignment@9
sub vcl_recv {
  # falco-ignore-next-line
  if (req.http.X) {
    # falco-ignore-next-line function/arguments
    set req.http.A = undefined.one;
    set req.http.B = std.itoa(0, 1, 2);
  }
  set req.http.C = undefined.two;
}
