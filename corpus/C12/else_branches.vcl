# expect: subroutine/boilerplate-macro@2 -@4 operator/assignment@4 function/arguments@13
sub vcl_recv {
  if (req.http.X) {
    set req.http.A = undefined.one;
  }
  # falco-ignore-next-line
  else if (req.http.Y == undefined.cond) {
    set req.http.A = undefined.two;
  }
  # falco-ignore-next-line function/argument-type
  else {
    set req.http.B = std.itoa(req.http.D);
    set req.http.B = std.itoa(0, 1, 2);
  }
}
