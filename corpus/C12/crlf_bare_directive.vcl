# expect: subroutine/boilerplate-macro@2 function/arguments@8
sub vcl_recv {
  # falco-ignore-next-line
  set req.http.B = std.itoa(0, 1, 2);
  set req.http.B = std.itoa(0, 1, 2); // falco-ignore
  /* falco-ignore-next-line */
  set req.http.B = std.itoa(0, 1, 2);
  set req.http.B = std.itoa(0, 1, 2);
}
