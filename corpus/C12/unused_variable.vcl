# expect: subroutine/boilerplate-macro@2 unused/variable@7
sub vcl_recv {
  declare local var.a STRING; // falco-ignore
  # falco-ignore-next-line unused/variable
  declare local var.b STRING;
  # falco-ignore-next-line function/arguments
  declare local var.c STRING;
}
