# expect: subroutine/boilerplate-macro@2 function/arguments@13 -@17 operator/assignment@17
sub vcl_recv {
  switch (req.http.X) {
    case "a":
      # falco-ignore-next-line
      set req.http.A = undefined.one;
      break;
    # falco-ignore-next-line function/arguments
    case "b":
      set req.http.B = std.itoa(0, 1, 2);
      fallthrough;
    default:
      set req.http.B = std.itoa(0, 1, 2);
      set req.http.B = std.itoa(0, 1, 2); // falco-ignore
      break;
  }
  set req.http.C = undefined.two;
}
