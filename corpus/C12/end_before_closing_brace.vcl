# expect: subroutine/boilerplate-macro@2 function/arguments@8 -@9 operator/assignment@9 subroutine/boilerplate-macro@11 -@12 operator/assignment@12
sub vcl_recv {
  if (req.http.X) {
    # falco-ignore-start
    set req.http.A = undefined.one;
    # falco-ignore-end
  }
  set req.http.B = std.itoa(0, 1, 2);
  set req.http.C = undefined.two;
}
sub vcl_fetch {
  set req.http.C = undefined.three;
}
