# expect: subroutine/boilerplate-macro@2 operator/conditional@7 operator/assignment@7
sub vcl_recv {
  /* falco-ignore-next-line */
  set req.http.A = undefined.one;
  set req.http.B = std.itoa(0, 1, 2); /* falco-ignore function/arguments */
  /* falco-ignore-next-line function/arguments, function/argument-type */
  set req.http.C = std.itoa(req.http.D) + undefined.two;
}
