# expect: subroutine/boilerplate-macro@2 -@10 operator/assignment@10
sub vcl_recv {
  # falco-ignore-next-line
  if (req.http.X == undefined.cond) {
    # falco-ignore-next-line
    set req.http.A = undefined.one;
    set req.http.B = std.itoa(0, 1, 2);
    set req.http.B = std.itoa(0, 1, 2); // falco-ignore function/argument-type
  }
  set req.http.C = undefined.two;
}
