sub vcl_recv {
  #FASTLY RECV
  set req.http.K = ;
}
