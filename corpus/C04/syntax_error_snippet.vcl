# @scope: recv
set req.http.K = ;
