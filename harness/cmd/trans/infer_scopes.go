package main

import (
	"fmt"
	"go/ast"
	"go/token"
	"strconv"
	"strings"
)

// Gen/InferScopes.v (C11): the scope bit constants of linter/context/scope.go and the
// fastlyScopes table of linter/scope_inference.go (inferSubroutineScopes).
func init() {
	register("InferScopes.v", func(repo string) (string, error) {
		_, f, err := parseFile(repo, "linter/context/scope.go")
		if err != nil {
			return "", err
		}
		type kv struct {
			name string
			val  uint64
		}
		var consts []kv
		for _, d := range f.Decls {
			gd, ok := d.(*ast.GenDecl)
			if !ok || gd.Tok != token.CONST {
				continue
			}
			isScopeBlock := false
			for _, s := range gd.Specs {
				vs := s.(*ast.ValueSpec)
				if len(vs.Names) == 1 && vs.Names[0].Name == "RECV" {
					isScopeBlock = true
				}
			}
			if !isScopeBlock {
				continue
			}
			for _, s := range gd.Specs {
				vs := s.(*ast.ValueSpec)
				if len(vs.Names) != 1 || len(vs.Values) != 1 {
					return "", fmt.Errorf("scope.go: unsupported const spec")
				}
				lit, ok := vs.Values[0].(*ast.BasicLit)
				if !ok || lit.Kind != token.INT {
					return "", fmt.Errorf("scope.go: %s is not an integer literal", vs.Names[0].Name)
				}
				v, err := strconv.ParseUint(lit.Value, 0, 64)
				if err != nil {
					return "", err
				}
				consts = append(consts, kv{vs.Names[0].Name, v})
			}
		}
		if len(consts) == 0 {
			return "", fmt.Errorf("scope.go: scope const block not found")
		}
		_, g, err := parseFile(repo, "linter/scope_inference.go")
		if err != nil {
			return "", err
		}
		var table [][2]string
		ast.Inspect(g, func(n ast.Node) bool {
			as, ok := n.(*ast.AssignStmt)
			if !ok || len(as.Lhs) != 1 || len(as.Rhs) != 1 {
				return true
			}
			id, ok := as.Lhs[0].(*ast.Ident)
			if !ok || id.Name != "fastlyScopes" {
				return true
			}
			cl, ok := as.Rhs[0].(*ast.CompositeLit)
			if !ok {
				return true
			}
			for _, e := range cl.Elts {
				kve, ok := e.(*ast.KeyValueExpr)
				if !ok {
					continue
				}
				k, ok1 := kve.Key.(*ast.BasicLit)
				sel, ok2 := kve.Value.(*ast.SelectorExpr)
				if !ok1 || !ok2 {
					continue
				}
				name, _ := strconv.Unquote(k.Value)
				table = append(table, [2]string{name, sel.Sel.Name})
			}
			return false
		})
		if len(table) == 0 {
			return "", fmt.Errorf("scope_inference.go: fastlyScopes literal not found")
		}
		var b strings.Builder
		b.WriteString("(* GENERATED from linter/context/scope.go and linter/scope_inference.go by trans; do not edit *)\n")
		b.WriteString("From Coq Require Import NArith List String.\nImport ListNotations.\nLocal Open Scope N_scope.\n")
		var names []string
		for _, c := range consts {
			fmt.Fprintf(&b, "Definition SC_%s : N := %d.\n", c.name, c.val)
			if c.val != 0 {
				names = append(names, "SC_"+c.name)
			}
		}
		b.WriteString("Definition scope_consts : list N := [" + strings.Join(names, "; ") + "].\n")
		b.WriteString("Definition all_scopes : N := fold_right N.lor 0 scope_consts.\n")
		var rows []string
		for _, r := range table {
			rows = append(rows, fmt.Sprintf("(%q%%string, SC_%s)", r[0], r[1]))
		}
		b.WriteString("Definition fastly_scopes : list (string * N) := [" + strings.Join(rows, "; ") + "].\n")
		// linter/helper.go: the name-suffix rule of getSubroutineCallScope and the annotation names of annotationToScope
		_, h, err := parseFile(repo, "linter/helper.go")
		if err != nil {
			return "", err
		}
		var suffixes, annots []string
		for _, d := range h.Decls {
			fd, ok := d.(*ast.FuncDecl)
			if !ok || (fd.Name.Name != "getSubroutineCallScope" && fd.Name.Name != "annotationToScope") {
				continue
			}
			ast.Inspect(fd, func(n ast.Node) bool {
				cc, ok := n.(*ast.CaseClause)
				if !ok || len(cc.List) != 1 || len(cc.Body) != 1 {
					return true
				}
				ret, ok := cc.Body[0].(*ast.ReturnStmt)
				if !ok || len(ret.Results) != 1 {
					return true
				}
				sel, ok := ret.Results[0].(*ast.SelectorExpr)
				if !ok {
					return true
				}
				switch c := cc.List[0].(type) {
				case *ast.CallExpr: // strings.HasSuffix(s.Name.Value, "_recv")
					if f, ok := c.Fun.(*ast.SelectorExpr); ok && f.Sel.Name == "HasSuffix" && len(c.Args) == 2 {
						if lit, ok := c.Args[1].(*ast.BasicLit); ok {
							v, _ := strconv.Unquote(lit.Value)
							suffixes = append(suffixes, fmt.Sprintf("(%q%%string, SC_%s)", v, sel.Sel.Name))
						}
					}
				case *ast.BasicLit: // case "RECV":
					v, _ := strconv.Unquote(c.Value)
					annots = append(annots, fmt.Sprintf("(%q%%string, SC_%s)", v, sel.Sel.Name))
				}
				return true
			})
		}
		if len(suffixes) == 0 || len(annots) == 0 {
			return "", fmt.Errorf("helper.go: suffix / annotation tables not found")
		}
		// linter/context/builtin.go: the top-level names of the builtin function table; a subroutine of such a
		// name is rejected by AddSubroutine / AddUserDefinedFunction and never registered
		_, bf, err := parseFile(repo, "linter/context/builtin.go")
		if err != nil {
			return "", err
		}
		var tops []string
		for _, d := range bf.Decls {
			fd, ok := d.(*ast.FuncDecl)
			if !ok || fd.Name.Name != "builtinFunctions" || fd.Body == nil {
				continue
			}
			for _, st := range fd.Body.List {
				ret, ok := st.(*ast.ReturnStmt)
				if !ok || len(ret.Results) != 1 {
					continue
				}
				cl, ok := ret.Results[0].(*ast.CompositeLit)
				if !ok {
					continue
				}
				for _, e := range cl.Elts {
					if kv, ok := e.(*ast.KeyValueExpr); ok {
						if lit, ok := kv.Key.(*ast.BasicLit); ok {
							v, _ := strconv.Unquote(lit.Value)
							tops = append(tops, fmt.Sprintf("%q%%string", v))
						}
					}
				}
			}
		}
		if len(tops) == 0 {
			return "", fmt.Errorf("builtin.go: function table not found")
		}
		b.WriteString("Definition builtin_top_names : list string := [" + strings.Join(tops, "; ") + "].\n")
		b.WriteString("Definition suffix_scopes : list (string * N) := [" + strings.Join(suffixes, "; ") + "].\n")
		b.WriteString("Definition annotation_scopes : list (string * N) := [" + strings.Join(annots, "; ") + "].\n")
		return b.String(), nil
	})
}
