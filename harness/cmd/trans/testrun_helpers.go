package main

import (
	"fmt"
	"go/ast"
	"go/token"
	"sort"
	"strings"
)

// Gen/TestRunHelpers.v : the registry of the test-only functions (tester/function/functions.go):
// for every registered name, the exported functions of the package its Call closure invokes, and
// whether the closure reports to the pass / fail counter (c.Pass() and c.Fail()).
//
//	helpers : [(registered name, ([implementation function], counts))]
func init() {
	register("TestRunHelpers.v", testrunHelpers)
}

func testrunHelpers(repo string) (string, error) {
	_, f, err := parseFile(repo, "tester/function/functions.go")
	if err != nil {
		return "", err
	}
	type ent struct {
		name   string
		impls  []string
		counts bool
	}
	var ents []ent
	seen := map[string]bool{}
	ast.Inspect(f, func(n ast.Node) bool {
		kv, ok := n.(*ast.KeyValueExpr)
		if !ok {
			return true
		}
		key, ok := kv.Key.(*ast.BasicLit)
		if !ok || key.Kind != token.STRING {
			return true
		}
		cl, ok := kv.Value.(*ast.CompositeLit)
		if !ok {
			return true
		}
		var call *ast.FuncLit
		direct := ""
		for _, el := range cl.Elts {
			if fkv, ok := el.(*ast.KeyValueExpr); ok {
				if id, ok := fkv.Key.(*ast.Ident); ok && id.Name == "Call" {
					call, _ = fkv.Value.(*ast.FuncLit)
					if id, ok := fkv.Value.(*ast.Ident); ok {
						direct = id.Name // Call: Testing_xxx, the implementation itself
					}
				}
			}
		}
		if call == nil && direct == "" {
			return true
		}
		e := ent{name: strings.Trim(key.Value, "\"")}
		if call == nil {
			e.impls = []string{direct}
			if seen[e.name] {
				e.name += "(duplicate)"
			}
			seen[e.name] = true
			ents = append(ents, e)
			return false
		}
		pass, fail := false, false
		ast.Inspect(call.Body, func(m ast.Node) bool {
			ce, ok := m.(*ast.CallExpr)
			if !ok {
				return true
			}
			switch fn := ce.Fun.(type) {
			case *ast.Ident:
				if ast.IsExported(fn.Name) {
					dup := false
					for _, x := range e.impls {
						dup = dup || x == fn.Name
					}
					if !dup {
						e.impls = append(e.impls, fn.Name)
					}
				}
			case *ast.SelectorExpr:
				if x, ok := fn.X.(*ast.Ident); ok && x.Name == "c" {
					pass = pass || fn.Sel.Name == "Pass"
					fail = fail || fn.Sel.Name == "Fail"
				}
			}
			return true
		})
		e.counts = pass && fail
		if seen[e.name] {
			e.name += "(duplicate)"
		}
		seen[e.name] = true
		ents = append(ents, e)
		return false
	})
	if len(ents) < 30 {
		return "", fmt.Errorf("tester/function/functions.go: only %d registered functions with a Call closure", len(ents))
	}
	sort.Slice(ents, func(i, j int) bool { return ents[i].name < ents[j].name })
	var b strings.Builder
	b.WriteString("(* GENERATED from tester/function/functions.go by trans (testrun_helpers.go); do not edit *)\n")
	b.WriteString("From Coq Require Import String List Bool.\nImport ListNotations.\nLocal Open Scope string_scope.\n\n")
	b.WriteString("(* registered name, (exported functions its Call closure invokes, reports to the pass / fail counter) *)\n")
	b.WriteString("Definition helpers : list (string * (list string * bool)) := [\n")
	for i, e := range ents {
		fmt.Fprintf(&b, "  (%q, ([", e.name)
		for j, x := range e.impls {
			if j > 0 {
				b.WriteString("; ")
			}
			fmt.Fprintf(&b, "%q", x)
		}
		fmt.Fprintf(&b, "], %v))", e.counts)
		if i+1 < len(ents) {
			b.WriteString(";")
		}
		b.WriteString("\n")
	}
	b.WriteString("].\n")
	return b.String(), nil
}
