package main

import (
	"fmt"
	"go/ast"
	"go/token"
	"sort"
	"strings"
)

// Gen/StoreWritable.v : the variables each scope's Set method (interpreter/variable/<scope>.go) accepts,
// with the context field the assignment lands in and the type of that field (context/context.go).
//
//	writable : scope -> [(VCL name, (context field | "", type letter))]
//
// A case of the `switch name` whose body is `doAssign(v.ctx.F, operator, val)` is a SIMPLE cell: the name
// denotes exactly the field F.  Any other case (headers, computed values, a temporary) has field "".
// gen/storegen.py draws the ctx variables of its programs from the simple cells of this table.
func init() {
	register("StoreWritable.v", storeWritable)
}

var scopeFiles = []struct{ scope, file, typ string }{
	{"all", "all.go", "AllScopeVariables"},
	{"recv", "recv.go", "RecvScopeVariables"},
	{"hash", "hash.go", "HashScopeVariables"},
	{"hit", "hit.go", "HitScopeVariables"},
	{"miss", "miss.go", "MissScopeVariables"},
	{"pass", "pass.go", "PassScopeVariables"},
	{"fetch", "fetch.go", "FetchScopeVariables"},
	{"error", "error.go", "ErrorScopeVariables"},
	{"deliver", "deliver.go", "DeliverScopeVariables"},
	{"log", "log.go", "LogScopeVariables"},
}

func storeWritable(repo string) (string, error) {
	// constants NAME = "vcl.name"
	_, pf, err := parseFile(repo, "interpreter/variable/predefined.go")
	if err != nil {
		return "", err
	}
	consts := map[string]string{}
	for _, d := range pf.Decls {
		gd, ok := d.(*ast.GenDecl)
		if !ok || gd.Tok != token.CONST {
			continue
		}
		for _, sp := range gd.Specs {
			vs := sp.(*ast.ValueSpec)
			for i, n := range vs.Names {
				if i < len(vs.Values) {
					if bl, ok := vs.Values[i].(*ast.BasicLit); ok && bl.Kind == token.STRING {
						consts[n.Name] = strings.Trim(bl.Value, "\"")
					}
				}
			}
		}
	}
	if len(consts) < 100 {
		return "", fmt.Errorf("interpreter/variable/predefined.go: only %d name constants", len(consts))
	}
	// context fields and their types
	_, cf, err := parseFile(repo, "interpreter/context/context.go")
	if err != nil {
		return "", err
	}
	ftype := map[string]string{}
	for _, d := range cf.Decls {
		gd, ok := d.(*ast.GenDecl)
		if !ok || gd.Tok != token.TYPE {
			continue
		}
		for _, sp := range gd.Specs {
			ts := sp.(*ast.TypeSpec)
			st, ok := ts.Type.(*ast.StructType)
			if !ok || ts.Name.Name != "Context" {
				continue
			}
			for _, fld := range st.Fields.List {
				t := "O"
				if se, ok := fld.Type.(*ast.StarExpr); ok {
					if sel, ok := se.X.(*ast.SelectorExpr); ok {
						if x, ok := sel.X.(*ast.Ident); ok && x.Name == "value" {
							switch sel.Sel.Name {
							case "Integer":
								t = "I"
							case "Float":
								t = "F"
							case "String":
								t = "S"
							case "Boolean":
								t = "B"
							case "RTime":
								t = "R"
							case "Time":
								t = "T"
							case "IP":
								t = "P"
							case "Backend":
								t = "K"
							}
						}
					}
				}
				for _, n := range fld.Names {
					ftype[n.Name] = t
				}
			}
		}
	}
	if len(ftype) < 50 {
		return "", fmt.Errorf("interpreter/context/context.go: struct Context not found")
	}
	var b strings.Builder
	b.WriteString("(* GENERATED from interpreter/variable/<scope>.go (Set / Get methods), predefined.go, context/context.go by trans (store_writable.go); do not edit *)\n")
	b.WriteString("From Coq Require Import String List.\nImport ListNotations.\nLocal Open Scope string_scope.\n\n")
	type ent struct{ name, field, ty string }
	scan := func(method string, fieldOf func([]ast.Stmt) string) (map[string][]ent, int, error) {
		out := map[string][]ent{}
		withSwitch := 0
		for _, sf := range scopeFiles {
			_, f, err := parseFile(repo, "interpreter/variable/"+sf.file)
			if err != nil {
				return nil, 0, err
			}
			var fn *ast.FuncDecl
			for _, d := range f.Decls {
				fd, ok := d.(*ast.FuncDecl)
				if !ok || fd.Recv == nil || fd.Name.Name != method || len(fd.Recv.List) != 1 {
					continue
				}
				if st, ok := fd.Recv.List[0].Type.(*ast.StarExpr); ok {
					if id, ok := st.X.(*ast.Ident); ok && id.Name == sf.typ {
						fn = fd
					}
				}
			}
			if fn == nil || fn.Body == nil {
				return nil, 0, fmt.Errorf("%s: method (*%s).%s not found", sf.file, sf.typ, method)
			}
			// hash.go's Set has a single `if name == ...` (req.hash, not a simple cell) instead of a switch
			var clauses []ast.Stmt
			for _, st := range fn.Body.List {
				if s, ok := st.(*ast.SwitchStmt); ok {
					clauses = append(clauses, s.Body.List...)
				}
			}
			if len(clauses) > 0 {
				withSwitch++
			}
			var ents []ent
			for _, c := range clauses {
				cc := c.(*ast.CaseClause)
				field := fieldOf(cc.Body)
				for _, e := range cc.List {
					id, ok := e.(*ast.Ident)
					if !ok {
						return nil, 0, fmt.Errorf("%s: %s: case label that is not a constant name", sf.file, method)
					}
					n, ok := consts[id.Name]
					if !ok {
						return nil, 0, fmt.Errorf("%s: %s: case %s is not a constant of predefined.go", sf.file, method, id.Name)
					}
					t := "O"
					if field != "" {
						t = ftype[field]
						if t == "" {
							return nil, 0, fmt.Errorf("%s: %s: case %s uses ctx.%s, which is not a field of context.Context", sf.file, method, id.Name, field)
						}
					}
					ents = append(ents, ent{n, field, t})
				}
			}
			sort.Slice(ents, func(i, j int) bool { return ents[i].name < ents[j].name })
			out[sf.scope] = ents
		}
		return out, withSwitch, nil
	}
	emit := func(def string, tab map[string][]ent) {
		fmt.Fprintf(&b, "Definition %s : list (string * list (string * (string * string))) := [\n", def)
		for si, sf := range scopeFiles {
			fmt.Fprintf(&b, "  (%q, [", sf.scope)
			for i, e := range tab[sf.scope] {
				if i > 0 {
					b.WriteString(";")
				}
				fmt.Fprintf(&b, "\n    (%q, (%q, %q))", e.name, e.field, e.ty)
			}
			b.WriteString("])")
			if si+1 < len(scopeFiles) {
				b.WriteString(";")
			}
			b.WriteString("\n")
		}
		b.WriteString("].\n\n")
	}
	wt, n, err := scan("Set", simpleCell)
	if err != nil {
		return "", err
	}
	if n < 8 {
		return "", fmt.Errorf("only %d of the scope Set methods have the `switch name` shape", n)
	}
	b.WriteString("(* scope, [(name, (context field of a simple cell or \"\", type letter))] *)\n")
	emit("writable", wt)
	// names whose Set case assigns OTHER context fields too (documented couplings: gzip / brotli)
	others := map[string][]string{}
	ct, _, err := scan("Set", func(body []ast.Stmt) string {
		own, os := coupledCell(body)
		if len(os) == 0 {
			return ""
		}
		others[own] = os
		return own
	})
	if err != nil {
		return "", err
	}
	b.WriteString("(* scope, name, (own context field, the OTHER context fields its Set case assigns as well) *)\n")
	b.WriteString("Definition coupled : list (string * (string * (string * list string))) := [")
	first := true
	for _, sf := range scopeFiles {
		for _, e := range ct[sf.scope] {
			if e.field == "" {
				continue
			}
			if !first {
				b.WriteString(";")
			}
			first = false
			fmt.Fprintf(&b, "\n  (%q, (%q, (%q, [", sf.scope, e.name, e.field)
			for j, o := range others[e.field] {
				if j > 0 {
					b.WriteString("; ")
				}
				fmt.Fprintf(&b, "%q", o)
			}
			b.WriteString("])))")
		}
	}
	b.WriteString("].\n\n")
	rt, n, err := scan("Get", plainRead)
	if err != nil {
		return "", err
	}
	if n < 8 {
		return "", fmt.Errorf("only %d of the scope Get methods have the `switch name` shape", n)
	}
	b.WriteString("(* scope, [(name, (context field a plain read `return v.ctx.F, nil` returns, or \"\" when the value is computed / simulated, type letter))] *)\n")
	emit("readable", rt)
	return b.String(), nil
}

// plainRead: the case body is exactly `return v.ctx.F, nil`
func plainRead(body []ast.Stmt) string {
	if len(body) != 1 {
		return ""
	}
	rs, ok := body[0].(*ast.ReturnStmt)
	if !ok || len(rs.Results) != 2 {
		return ""
	}
	if id, ok := rs.Results[1].(*ast.Ident); !ok || id.Name != "nil" {
		return ""
	}
	if sel, ok := rs.Results[0].(*ast.SelectorExpr); ok {
		if in, ok := sel.X.(*ast.SelectorExpr); ok && in.Sel.Name == "ctx" {
			return sel.Sel.Name
		}
	}
	return ""
}

// coupledFields: context fields the case body assigns DIRECTLY (v.ctx.X... = ...) other than `own`:
// `set beresp.gzip = true` also clears ctx.BackendResponseBrotli (and the other way round). Such a name is not a
// cell of its own: it is listed in the table `coupled`, not among the simple cells.
func coupledFields(body []ast.Stmt, own string) []string {
	seen := map[string]bool{}
	var out []string
	note := func(e ast.Expr) {
		// find the selector right after `.ctx`
		for {
			sel, ok := e.(*ast.SelectorExpr)
			if !ok {
				return
			}
			if in, ok := sel.X.(*ast.SelectorExpr); ok && in.Sel.Name == "ctx" {
				if sel.Sel.Name != own && !seen[sel.Sel.Name] {
					seen[sel.Sel.Name] = true
					out = append(out, sel.Sel.Name)
				}
				return
			}
			e = sel.X
		}
	}
	for _, st := range body {
		ast.Inspect(st, func(x ast.Node) bool {
			switch a := x.(type) {
			case *ast.AssignStmt:
				for _, l := range a.Lhs {
					note(l)
				}
			case *ast.IncDecStmt:
				note(a.X)
			}
			return true
		})
	}
	sort.Strings(out)
	return out
}

// simpleCell: the body is `if err := doAssign(v.ctx.F, operator, val); err != nil {...}; return nil`
// (possibly after a nil-initialisation of the same field): returns F, else "".
func simpleCell(body []ast.Stmt) string {
	field := ""
	n := 0
	for _, st := range body {
		ast.Inspect(st, func(x ast.Node) bool {
			call, ok := x.(*ast.CallExpr)
			if !ok {
				return true
			}
			id, ok := call.Fun.(*ast.Ident)
			if !ok || id.Name != "doAssign" || len(call.Args) != 3 {
				return true
			}
			n++
			if sel, ok := call.Args[0].(*ast.SelectorExpr); ok {
				if in, ok := sel.X.(*ast.SelectorExpr); ok && in.Sel.Name == "ctx" {
					field = sel.Sel.Name
				}
			}
			return true
		})
	}
	if n != 1 {
		return ""
	}
	// anything else in the body that calls out (header writes, conversions) makes it a non-simple case
	other := false
	for _, st := range body {
		ast.Inspect(st, func(x ast.Node) bool {
			if call, ok := x.(*ast.CallExpr); ok {
				switch f := call.Fun.(type) {
				case *ast.Ident:
					if f.Name != "doAssign" {
						other = true
					}
				case *ast.SelectorExpr:
					if x, ok := f.X.(*ast.Ident); !ok || x.Name != "errors" {
						other = true
					}
				}
			}
			return true
		})
	}
	if other {
		return ""
	}
	if len(coupledFields(body, field)) > 0 {
		return ""
	}
	return field
}

// coupledCell: like simpleCell but for the cases that ALSO assign other context fields: (own field, the others)
func coupledCell(body []ast.Stmt) (string, []string) {
	own := ""
	for _, st := range body {
		ast.Inspect(st, func(x ast.Node) bool {
			if call, ok := x.(*ast.CallExpr); ok {
				if id, ok := call.Fun.(*ast.Ident); ok && id.Name == "doAssign" && len(call.Args) == 3 && own == "" {
					if sel, ok := call.Args[0].(*ast.SelectorExpr); ok {
						if in, ok := sel.X.(*ast.SelectorExpr); ok && in.Sel.Name == "ctx" {
							own = sel.Sel.Name
						}
					}
				}
			}
			return true
		})
	}
	if own == "" {
		return "", nil
	}
	return own, coupledFields(body, own)
}
