package main

import (
	"fmt"
	"go/ast"
	"go/token"
	"strconv"
	"strings"
)

// Gen/LexClasses.v : the character classes and loop conditions of the lexer, translated from the Go
// boolean expressions (lexer/lexer.go, lexer/reader.go) into Coq functions N -> bool:
//
//	g_isLetter g_isDigit g_isDecimalDigit g_isHexDigit g_isLongStringDelimiter   (function bodies `return <expr>`)
//	g_skipWhitespace_cond      the `for` condition of skipWhitespace   (over l.char)
//	g_readString_cond          the `for` condition of readString
//	g_identTail_cond           the `for` condition that glues digits, '-', '.', ':', '*' onto an identifier (NextToken)
//
// Supported expression grammar: || && ! == != <= >= < > ( ) character / integer literals, the rune
// parameter or l.char, calls of the class functions.  Anything else stops the build.
func init() {
	register("LexClasses.v", func(repo string) (string, error) {
		_, lx, err := parseFile(repo, "lexer/lexer.go")
		if err != nil {
			return "", err
		}
		_, rd, err := parseFile(repo, "lexer/reader.go")
		if err != nil {
			return "", err
		}
		funcs := map[string]*ast.FuncDecl{}
		for _, f := range []*ast.File{lx, rd} {
			for _, d := range f.Decls {
				if fd, ok := d.(*ast.FuncDecl); ok {
					funcs[fd.Name.Name] = fd
				}
			}
		}
		var b strings.Builder
		b.WriteString("(* GENERATED from lexer/lexer.go and lexer/reader.go by trans; do not edit *)\nFrom Coq Require Import NArith Bool.\nLocal Open Scope N_scope.\n")
		classes := []string{"isLetter", "isDecimalDigit", "isDigit", "isHexDigit", "isLongStringDelimiter"}
		for _, name := range classes {
			fd := funcs[name]
			if fd == nil || fd.Body == nil || len(fd.Type.Params.List) != 1 || len(fd.Type.Params.List[0].Names) != 1 {
				return "", fmt.Errorf("lexer: class function %s not found / unexpected signature", name)
			}
			param := fd.Type.Params.List[0].Names[0].Name
			var ret *ast.ReturnStmt
			for _, st := range fd.Body.List {
				if r, ok := st.(*ast.ReturnStmt); ok {
					if ret != nil {
						return "", fmt.Errorf("lexer: %s has more than one return", name)
					}
					ret = r
				} else {
					return "", fmt.Errorf("lexer: %s: unsupported statement (only `return <expr>`)", name)
				}
			}
			if ret == nil || len(ret.Results) != 1 {
				return "", fmt.Errorf("lexer: %s: no single return expression", name)
			}
			e, err := classExpr(ret.Results[0], param)
			if err != nil {
				return "", fmt.Errorf("lexer: %s: %v", name, err)
			}
			fmt.Fprintf(&b, "Definition g_%s (r : N) : bool := %s.\n", name, e)
		}
		// loop conditions over l.char
		conds := []struct{ out, fn string }{
			{"g_skipWhitespace_cond", "skipWhitespace"},
			{"g_readString_cond", "readString"},
			{"g_identTail_cond", "NextToken"},
		}
		for _, c := range conds {
			fd := funcs[c.fn]
			if fd == nil {
				return "", fmt.Errorf("lexer: function %s not found", c.fn)
			}
			var loops []*ast.ForStmt
			ast.Inspect(fd.Body, func(n ast.Node) bool {
				if f, ok := n.(*ast.ForStmt); ok && f.Cond != nil && f.Init == nil && f.Post == nil {
					loops = append(loops, f)
				}
				return true
			})
			if len(loops) != 1 {
				return "", fmt.Errorf("lexer: %s: expected exactly one `for <cond>` loop, found %d", c.fn, len(loops))
			}
			e, err := classExpr(loops[0].Cond, "")
			if err != nil {
				return "", fmt.Errorf("lexer: %s loop condition: %v", c.fn, err)
			}
			fmt.Fprintf(&b, "Definition %s (r : N) : bool := %s.\n", c.out, e)
		}
		return b.String(), nil
	})
}

// classExpr translates a boolean expression over the rune `param` (or l.char) into Coq.
func classExpr(e ast.Expr, param string) (string, error) {
	switch t := e.(type) {
	case *ast.ParenExpr:
		return classExpr(t.X, param)
	case *ast.UnaryExpr:
		if t.Op == token.NOT {
			x, err := classExpr(t.X, param)
			if err != nil {
				return "", err
			}
			return "(negb " + x + ")", nil
		}
	case *ast.BinaryExpr:
		switch t.Op {
		case token.LOR, token.LAND:
			x, err := classExpr(t.X, param)
			if err != nil {
				return "", err
			}
			y, err := classExpr(t.Y, param)
			if err != nil {
				return "", err
			}
			op := "||"
			if t.Op == token.LAND {
				op = "&&"
			}
			return "(" + x + " " + op + " " + y + ")", nil
		case token.EQL, token.NEQ, token.LEQ, token.GEQ, token.LSS, token.GTR:
			x, err := classTerm(t.X, param)
			if err != nil {
				return "", err
			}
			y, err := classTerm(t.Y, param)
			if err != nil {
				return "", err
			}
			switch t.Op {
			case token.EQL:
				return "(" + x + " =? " + y + ")", nil
			case token.NEQ:
				return "(negb (" + x + " =? " + y + "))", nil
			case token.LEQ:
				return "(" + x + " <=? " + y + ")", nil
			case token.GEQ:
				return "(" + y + " <=? " + x + ")", nil
			case token.LSS:
				return "(" + x + " <? " + y + ")", nil
			case token.GTR:
				return "(" + y + " <? " + x + ")", nil
			}
		}
	case *ast.CallExpr:
		if id, ok := t.Fun.(*ast.Ident); ok && len(t.Args) == 1 && strings.HasPrefix(id.Name, "is") {
			a, err := classTerm(t.Args[0], param)
			if err != nil {
				return "", err
			}
			return "(g_" + id.Name + " " + a + ")", nil
		}
	}
	return "", fmt.Errorf("unsupported boolean expression %T", e)
}

func classTerm(e ast.Expr, param string) (string, error) {
	switch t := e.(type) {
	case *ast.ParenExpr:
		return classTerm(t.X, param)
	case *ast.Ident:
		if t.Name == param && param != "" {
			return "r", nil
		}
	case *ast.SelectorExpr:
		if x, ok := t.X.(*ast.Ident); ok && x.Name == "l" && t.Sel.Name == "char" {
			return "r", nil
		}
	case *ast.CallExpr: // rune(x)
		if id, ok := t.Fun.(*ast.Ident); ok && id.Name == "rune" && len(t.Args) == 1 {
			return classTerm(t.Args[0], param)
		}
	case *ast.BasicLit:
		switch t.Kind {
		case token.CHAR:
			v, _, _, err := strconv.UnquoteChar(t.Value[1:len(t.Value)-1], '\'')
			if err != nil {
				return "", err
			}
			return strconv.Itoa(int(v)), nil
		case token.INT:
			v, err := strconv.ParseInt(t.Value, 0, 64)
			if err != nil {
				return "", err
			}
			return strconv.FormatInt(v, 10), nil
		}
	}
	return "", fmt.Errorf("unsupported term %T", e)
}
