package main

import (
	"fmt"
	"go/ast"
	"go/token"
	"os"
	"path/filepath"
	"sort"
	"strings"
)

// Gen/StoreEffects.v : for every built-in function under interpreter/function/builtin, what it
// can do to the interpreter context and to its arguments, read off the Go source.
//
// The analysis is syntactic and errs on the side of "writes":
//   - a name is ctx-rooted if it is the *context.Context parameter or was bound (:=, =, var) from
//     an expression mentioning a ctx-rooted name; likewise args-rooted for the variadic parameter;
//   - a WRITE is an assignment / IncDec whose left side is a selector, index or dereference rooted
//     in such a name, or a call of a method outside the read-only list on a rooted receiver, or a
//     call of a function in the same package whose corresponding parameter it writes;
//   - a function that passes ctx itself to anything is recorded as writing "*".
//
// builtin_effects : name -> list of ctx paths possibly written ("*" = unknown), and
// builtin_ctx_free : the names whose body never mentions the context at all,
// builtin_arg_writers : the names that may write through an argument.
func init() {
	register("StoreEffects.v", storeEffects)
}

var readOnlyMethods = map[string]bool{
	"Get": true, "Values": true, "Is": true, "String": true, "Type": true, "Load": true,
	"Has": true, "Clone": true, "Copy": true, "Cookies": true, "Cookie": true, "Len": true,
	"IsLiteral": true, "Contains": true, "Lookup": true, "Error": true,
}

// methods of time.Time / time.Duration values held in a .Value field (value receivers: no write)
var valueMethods = map[string]bool{
	"Add": true, "Sub": true, "After": true, "Before": true, "Equal": true, "Format": true,
	"Unix": true, "UnixNano": true, "UnixMicro": true, "UnixMilli": true, "Second": true, "Seconds": true,
	"In": true, "UTC": true, "Truncate": true, "Round": true, "Nanoseconds": true, "Milliseconds": true,
	"Microseconds": true, "Minutes": true, "Hours": true, "AddDate": true, "IsZero": true, "Nanosecond": true,
	"Year": true, "Month": true, "Day": true, "Hour": true, "Minute": true, "YearDay": true, "Weekday": true,
	"ISOWeek": true, "Zone": true, "Date": true, "Clock": true,
}

type fnInfo struct {
	decl *ast.FuncDecl
}

type effScan struct {
	funcs  map[string]*ast.FuncDecl // package-level functions by name (all builtin files)
	meths  map[string]*ast.FuncDecl // methods of the receiver type (statement analysis), by name
	writes map[string]bool
	argw   bool
	ctxUse bool
	depth  int
}

// ctxLike: names currently rooted in the context (set by scan; the translator is single-threaded)
var curRoots map[string]string

func storeRootIdent(e ast.Expr) (*ast.Ident, []string) {
	var path []string
	for {
		switch x := e.(type) {
		case *ast.Ident:
			return x, path
		case *ast.SelectorExpr:
			path = append([]string{x.Sel.Name}, path...)
			e = x.X
		case *ast.IndexExpr:
			e = x.X
		case *ast.StarExpr:
			e = x.X
		case *ast.ParenExpr:
			e = x.X
		case *ast.TypeAssertExpr:
			e = x.X
		case *ast.CallExpr:
			// value.Unwrap[T](v) is v itself; any other call yields a new value, except that a
			// call handed the context (or a part of it) may hand a part of it back
			if ix, ok := x.Fun.(*ast.IndexExpr); ok {
				if sel, ok := ix.X.(*ast.SelectorExpr); ok && sel.Sel.Name == "Unwrap" && len(x.Args) == 1 {
					e = x.Args[0]
					continue
				}
			}
			if _, local := x.Fun.(*ast.Ident); local {
				for _, a := range x.Args {
					if id, p := storeRootIdent(a); id != nil && strings.HasPrefix(curRoots[id.Name], "ctx") && passesReference(a, "", p) {
						return id, append(p, "*")
					}
				}
			}
			return nil, nil
		case *ast.UnaryExpr:
			e = x.X
		default:
			return nil, nil
		}
	}
}

// scan walks body with the given roots: name -> label ("ctx", "ctx.Request.Header", "args", ...).
func (s *effScan) scan(body *ast.BlockStmt, roots map[string]string) {
	if body == nil || s.depth > 4 {
		return
	}
	saved := curRoots
	curRoots = roots
	defer func() { curRoots = saved }()
	// propagate roots through simple bindings to a fixpoint
	for changed := true; changed; {
		changed = false
		ast.Inspect(body, func(n ast.Node) bool {
			bind := func(lhs []ast.Expr, rhs []ast.Expr) {
				for i, l := range lhs {
					id, ok := l.(*ast.Ident)
					if !ok || id.Name == "_" {
						continue
					}
					var r ast.Expr
					if len(rhs) == len(lhs) {
						r = rhs[i]
					} else if len(rhs) == 1 {
						r = rhs[0]
					} else {
						continue
					}
					if _, ok := roots[id.Name]; ok {
						continue
					}
					if rid, path := storeRootIdent(r); rid != nil {
						if lab, ok := roots[rid.Name]; ok {
							roots[id.Name] = strings.Join(append([]string{lab}, path...), ".")
							changed = true
							continue
						}
					}
				}
			}
			switch x := n.(type) {
			case *ast.AssignStmt:
				bind(x.Lhs, x.Rhs)
			case *ast.ValueSpec:
				var l []ast.Expr
				for _, nm := range x.Names {
					l = append(l, nm)
				}
				bind(l, x.Values)
			case *ast.RangeStmt:
				if rid, path := storeRootIdent(x.X); rid != nil {
					if lab, ok := roots[rid.Name]; ok {
						if id, ok := x.Value.(*ast.Ident); ok && id.Name != "_" {
							if _, ok := roots[id.Name]; !ok {
								roots[id.Name] = strings.Join(append([]string{lab}, path...), ".")
								changed = true
							}
						}
					}
				}
			}
			return true
		})
	}
	record := func(lab string, path []string) {
		if strings.HasPrefix(lab, "args") {
			s.argw = true
			return
		}
		full := strings.TrimPrefix(strings.Join(append([]string{lab}, path...), "."), "ctx")
		full = strings.TrimPrefix(full, ".")
		if full == "" {
			full = "*"
		}
		s.writes[full] = true
	}
	ast.Inspect(body, func(n ast.Node) bool {
		switch x := n.(type) {
		case *ast.Ident:
			if lab, ok := roots[x.Name]; ok && strings.HasPrefix(lab, "ctx") {
				s.ctxUse = true
			}
		case *ast.AssignStmt:
			for _, l := range x.Lhs {
				if _, plain := l.(*ast.Ident); plain {
					continue
				}
				if id, path := storeRootIdent(l); id != nil {
					if lab, ok := roots[id.Name]; ok {
						record(lab, path)
					}
				}
			}
		case *ast.IncDecStmt:
			if _, plain := x.X.(*ast.Ident); !plain {
				if id, path := storeRootIdent(x.X); id != nil {
					if lab, ok := roots[id.Name]; ok {
						record(lab, path)
					}
				}
			}
		case *ast.CallExpr:
			switch f := x.Fun.(type) {
			case *ast.SelectorExpr:
				// the receiver's own helper methods (not the nested evaluation Process<...>): analysed in place
				if rid, ok := f.X.(*ast.Ident); ok && roots[rid.Name] == "ctxI" && s.meths != nil {
					if g, ok := s.meths[f.Sel.Name]; ok && !strings.HasPrefix(f.Sel.Name, "Process") && g.Body != nil {
						s.depth++
						s.scan(g.Body, map[string]string{g.Recv.List[0].Names[0].Name: "ctxI"})
						s.depth--
					}
					break
				}
				// method on a rooted receiver
				if id, path := storeRootIdent(f.X); id != nil {
					if lab, ok := roots[id.Name]; ok {
						if !readOnlyMethods[f.Sel.Name] && !(valueMethods[f.Sel.Name] && strings.HasSuffix(strings.Join(append([]string{lab}, path...), "."), ".Value")) {
							record(lab, path)
						}
						break
					}
				}
				// pkg.Func(..., rooted, ...): another package gets the context or a part of it
				for _, a := range x.Args {
					if id, path := storeRootIdent(a); id != nil {
						if lab, ok := roots[id.Name]; ok && strings.HasPrefix(lab, "ctx") {
							if _, isPtrLike := a.(*ast.BasicLit); !isPtrLike && passesReference(a, lab, path) {
								record(lab, append(path, "*"))
							}
						}
					}
				}
			case *ast.Ident:
				// same-package function: analyse it with the rooted parameters
				if g, ok := s.funcs[f.Name]; ok && g.Body != nil {
					sub := map[string]string{}
					i := 0
					for _, fld := range g.Type.Params.List {
						for _, nm := range fld.Names {
							if i < len(x.Args) {
								if id, path := storeRootIdent(x.Args[i]); id != nil {
									if lab, ok := roots[id.Name]; ok {
										sub[nm.Name] = strings.Join(append([]string{lab}, path...), ".")
									}
								}
							}
							i++
						}
					}
					if len(sub) > 0 {
						s.depth++
						s.scan(g.Body, sub)
						s.depth--
					}
				}
			}
		}
		return true
	})
}

// passesReference: handing ctx, or a pointer / map / header reached from it, to foreign code.
// Scalars read out of the context (ctx.X.Value, ctx.Scope) are reads.
func passesReference(a ast.Expr, lab string, path []string) bool {
	if len(path) == 0 {
		return true // ctx itself or a rooted local
	}
	last := path[len(path)-1]
	switch last {
	case "Value", "Scope", "IsLiteral", "IsNotSet":
		return false
	}
	return true
}

func storeEffects(repo string) (string, error) {
	dir := filepath.Join(repo, "interpreter/function/builtin")
	ents, err := os.ReadDir(dir)
	if err != nil {
		return "", err
	}
	type file struct {
		name string
		main *ast.FuncDecl
	}
	funcs := map[string]*ast.FuncDecl{}
	var files []file
	for _, e := range ents {
		n := e.Name()
		if !strings.HasSuffix(n, ".go") || strings.HasSuffix(n, "_test.go") {
			continue
		}
		_, f, err := parseFile(repo, "interpreter/function/builtin/"+n)
		if err != nil {
			return "", err
		}
		var vclName string
		var main *ast.FuncDecl
		for _, d := range f.Decls {
			switch x := d.(type) {
			case *ast.GenDecl:
				if x.Tok != token.CONST {
					continue
				}
				for _, sp := range x.Specs {
					vs := sp.(*ast.ValueSpec)
					if len(vs.Names) == 1 && strings.HasSuffix(vs.Names[0].Name, "_Name") && len(vs.Values) == 1 {
						if bl, ok := vs.Values[0].(*ast.BasicLit); ok && bl.Kind == token.STRING {
							vclName = strings.Trim(bl.Value, "\"")
						}
					}
				}
			case *ast.FuncDecl:
				if x.Recv == nil {
					funcs[x.Name.Name] = x
					if isBuiltinEntry(x) {
						main = x
					}
				}
			}
		}
		if vclName == "" && main == nil {
			continue // helper-only file
		}
		if vclName == "" || main == nil {
			return "", fmt.Errorf("%s: expected one <X>_Name constant and one func(ctx *context.Context, args ...value.Value)", n)
		}
		files = append(files, file{vclName, main})
	}
	if len(files) < 100 {
		return "", fmt.Errorf("only %d built-ins found under %s", len(files), dir)
	}
	sort.Slice(files, func(i, j int) bool { return files[i].name < files[j].name })
	var b strings.Builder
	b.WriteString("(* GENERATED from interpreter/function/builtin/*.go by trans (store_effects.go); do not edit *)\n")
	b.WriteString("From Coq Require Import String List.\nImport ListNotations.\nLocal Open Scope string_scope.\n\n")
	b.WriteString("(* name, context paths the implementation may write (\"*\" under a path = handed to other code) *)\n")
	b.WriteString("Definition builtin_effects : list (string * list string) := [\n")
	var free, argw []string
	for i, f := range files {
		s := &effScan{funcs: funcs, writes: map[string]bool{}}
		roots := map[string]string{}
		ps := f.main.Type.Params.List
		roots[ps[0].Names[0].Name] = "ctx"
		roots[ps[1].Names[0].Name] = "args"
		s.scan(f.main.Body, roots)
		var ws []string
		for w := range s.writes {
			ws = append(ws, w)
		}
		sort.Strings(ws)
		if !s.ctxUse && len(ws) == 0 {
			free = append(free, f.name)
		}
		if s.argw {
			argw = append(argw, f.name)
		}
		fmt.Fprintf(&b, "  (%q, [", f.name)
		for j, w := range ws {
			if j > 0 {
				b.WriteString("; ")
			}
			fmt.Fprintf(&b, "%q", w)
		}
		b.WriteString("])")
		if i+1 < len(files) {
			b.WriteString(";")
		}
		b.WriteString("\n")
	}
	b.WriteString("].\n\n")
	list := func(name string, xs []string) {
		fmt.Fprintf(&b, "Definition %s : list string := [", name)
		for i, x := range xs {
			if i > 0 {
				b.WriteString("; ")
			}
			if i%6 == 0 {
				b.WriteString("\n  ")
			}
			fmt.Fprintf(&b, "%q", x)
		}
		b.WriteString("].\n\n")
	}
	b.WriteString("(* the implementation never mentions the context *)\n")
	list("builtin_ctx_free", free)
	b.WriteString("(* the implementation may write through one of its arguments *)\n")
	list("builtin_arg_writers", argw)

	// the statements: context fields each Process<X>Statement method of interpreter/statement.go writes
	// itself (not through the variable accessors, which are the NAMED writes)
	_, sf, err := parseFile(repo, "interpreter/statement.go")
	if err != nil {
		return "", err
	}
	meths := map[string]*ast.FuncDecl{}
	ients, err := os.ReadDir(filepath.Join(repo, "interpreter"))
	if err != nil {
		return "", err
	}
	for _, e := range ients {
		n := e.Name()
		if e.IsDir() || !strings.HasSuffix(n, ".go") || strings.HasSuffix(n, "_test.go") || strings.HasPrefix(n, "verif_") {
			continue
		}
		_, f, err := parseFile(repo, "interpreter/"+n)
		if err != nil {
			return "", err
		}
		for _, d := range f.Decls {
			if fd, ok := d.(*ast.FuncDecl); ok && fd.Recv != nil && len(fd.Recv.List) == 1 && len(fd.Recv.List[0].Names) == 1 {
				if st, ok := fd.Recv.List[0].Type.(*ast.StarExpr); ok {
					if id, ok := st.X.(*ast.Ident); ok && id.Name == "Interpreter" {
						meths[fd.Name.Name] = fd
					}
				}
			}
		}
	}
	type se struct {
		name string
		ws   []string
	}
	var ses []se
	for _, d := range sf.Decls {
		fd, ok := d.(*ast.FuncDecl)
		if !ok || fd.Recv == nil || len(fd.Recv.List) != 1 || len(fd.Recv.List[0].Names) != 1 || fd.Body == nil {
			continue
		}
		n := fd.Name.Name
		if !strings.HasPrefix(n, "Process") || !strings.HasSuffix(n, "Statement") {
			continue
		}
		s := &effScan{funcs: map[string]*ast.FuncDecl{}, meths: meths, writes: map[string]bool{}}
		s.scan(fd.Body, map[string]string{fd.Recv.List[0].Names[0].Name: "ctxI"})
		if os.Getenv("TRANS_DEBUG") != "" {
			fmt.Fprintln(os.Stderr, n, s.writes)
		}
		var ws []string
		for w := range s.writes {
			if w == "I.ctx.*" {
				ws = append(ws, "*") // the context itself handed on: to a built-in, to operator.Regex
			} else if strings.HasPrefix(w, "I.ctx.") {
				ws = append(ws, strings.TrimSuffix(strings.TrimPrefix(w, "I.ctx."), ".*"))
			}
		}
		sort.Strings(ws)
		var uniq []string
		for i, w := range ws {
			if i == 0 || ws[i-1] != w {
				uniq = append(uniq, w)
			}
		}
		ses = append(ses, se{strings.TrimSuffix(strings.TrimPrefix(n, "Process"), "Statement"), uniq})
	}
	if len(ses) < 10 {
		return "", fmt.Errorf("interpreter/statement.go: only %d Process<X>Statement methods found", len(ses))
	}
	sort.Slice(ses, func(i, j int) bool { return ses[i].name < ses[j].name })
	b.WriteString("(* statement kind (Process<kind>Statement of interpreter/statement.go), context fields it writes itself *)\n")
	b.WriteString("Definition statement_effects : list (string * list string) := [\n")
	for i, e := range ses {
		fmt.Fprintf(&b, "  (%q, [", e.name)
		for j, w := range e.ws {
			if j > 0 {
				b.WriteString("; ")
			}
			fmt.Fprintf(&b, "%q", w)
		}
		b.WriteString("])")
		if i+1 < len(ses) {
			b.WriteString(";")
		}
		b.WriteString("\n")
	}
	b.WriteString("].\n\n")

	// the operators: those of interpreter/operator/operator.go that are handed the context, and what they write
	_, of, err := parseFile(repo, "interpreter/operator/operator.go")
	if err != nil {
		return "", err
	}
	ofuncs := map[string]*ast.FuncDecl{}
	for _, d := range of.Decls {
		if fd, ok := d.(*ast.FuncDecl); ok && fd.Recv == nil {
			ofuncs[fd.Name.Name] = fd
		}
	}
	var onames, ofree []string
	for n := range ofuncs {
		onames = append(onames, n)
	}
	sort.Strings(onames)
	b.WriteString("(* exported operator functions that receive the context, context fields they write *)\n")
	b.WriteString("Definition operator_effects : list (string * list string) := [")
	first := true
	for _, n := range onames {
		fd := ofuncs[n]
		if !ast.IsExported(n) || fd.Body == nil {
			continue
		}
		ctxName := ""
		for _, fld := range fd.Type.Params.List {
			if st, ok := fld.Type.(*ast.StarExpr); ok {
				if sel, ok := st.X.(*ast.SelectorExpr); ok && sel.Sel.Name == "Context" && len(fld.Names) == 1 {
					ctxName = fld.Names[0].Name
				}
			}
		}
		if ctxName == "" {
			ofree = append(ofree, n)
			continue
		}
		s := &effScan{funcs: ofuncs, writes: map[string]bool{}}
		s.scan(fd.Body, map[string]string{ctxName: "ctx"})
		var ws []string
		for w := range s.writes {
			ws = append(ws, w)
		}
		sort.Strings(ws)
		if !first {
			b.WriteString(";")
		}
		first = false
		fmt.Fprintf(&b, "\n  (%q, [", n)
		for j, w := range ws {
			if j > 0 {
				b.WriteString("; ")
			}
			fmt.Fprintf(&b, "%q", w)
		}
		b.WriteString("])")
	}
	b.WriteString("].\n\n")
	if len(ofree) < 10 {
		return "", fmt.Errorf("interpreter/operator/operator.go: only %d operators without a context parameter", len(ofree))
	}
	b.WriteString("(* exported operator functions whose signature has no context parameter *)\n")
	list("operator_ctx_free", ofree)
	return b.String(), nil
}

func isBuiltinEntry(f *ast.FuncDecl) bool {
	ps := f.Type.Params.List
	if len(ps) != 2 || len(ps[0].Names) != 1 || len(ps[1].Names) != 1 {
		return false
	}
	st, ok := ps[0].Type.(*ast.StarExpr)
	if !ok {
		return false
	}
	sel, ok := st.X.(*ast.SelectorExpr)
	if !ok || sel.Sel.Name != "Context" {
		return false
	}
	_, variadic := ps[1].Type.(*ast.Ellipsis)
	return variadic && ast.IsExported(f.Name.Name)
}
