package main

// interp_vars.go - C05 translator for the simulator's variable dispatch (tie T):
//
//	Gen/InterpVars.v  from interpreter/variable/{all,recv,hash,hit,miss,pass,fetch,error,deliver,log,shared}.go,
//	                  variable.go (regular expressions) and predefined.go (name constants)
//
// For every method Get / Set / Unset / getFromRegex of the ten <Scope>ScopeVariables types and for every
// package-level dispatcher function (a function with a parameter `name` that switches on it):
//   - the names of the case labels of `switch name` / `switch strings.ToLower(name)` (constants resolved),
//   - the dispatcher functions it calls with `name`,
//   - the regular expressions it matches `name` against (<re>.FindStringSubmatch(name)),
//   - the methods it calls on v.base and on itself (v.getFromRegex).
// What each case DOES is not translated (the observed table is the correspondence for that).

import (
	"fmt"
	"go/ast"
	"go/token"
	"sort"
	"strconv"
	"strings"
)

type ivMethod struct {
	cases, calls, regexes, base, self []string
	lower                             bool
}

func stringConsts(f *ast.File, out map[string]string) {
	for _, d := range f.Decls {
		gd, ok := d.(*ast.GenDecl)
		if !ok || gd.Tok != token.CONST {
			continue
		}
		for _, s := range gd.Specs {
			vs := s.(*ast.ValueSpec)
			for i, n := range vs.Names {
				if i < len(vs.Values) {
					if bl, ok := vs.Values[i].(*ast.BasicLit); ok && bl.Kind == token.STRING {
						if v, err := strconv.Unquote(bl.Value); err == nil {
							out[n.Name] = v
						}
					}
				}
			}
		}
	}
}

func isNameTag(e ast.Expr) (ok, lower bool) {
	if id, isId := e.(*ast.Ident); isId && id.Name == "name" {
		return true, false
	}
	if c, isCall := e.(*ast.CallExpr); isCall && len(c.Args) == 1 {
		if se, isSel := c.Fun.(*ast.SelectorExpr); isSel && se.Sel.Name == "ToLower" {
			if id, isId := c.Args[0].(*ast.Ident); isId && id.Name == "name" {
				return true, true
			}
		}
	}
	return false, false
}

func hasNameArg(c *ast.CallExpr) bool {
	for _, a := range c.Args {
		if id, ok := a.(*ast.Ident); ok && id.Name == "name" {
			return true
		}
	}
	return false
}

func uniq(xs []string) []string {
	sort.Strings(xs)
	var out []string
	for i, x := range xs {
		if i == 0 || x != xs[i-1] {
			out = append(out, x)
		}
	}
	return out
}

func extractMethod(body *ast.BlockStmt, consts map[string]string) (*ivMethod, error) {
	m := &ivMethod{}
	var err error
	ast.Inspect(body, func(n ast.Node) bool {
		switch t := n.(type) {
		case *ast.SwitchStmt:
			if ok, lower := isNameTag(t.Tag); ok {
				if lower {
					m.lower = true
				}
				for _, c := range t.Body.List {
					cc := c.(*ast.CaseClause)
					// a case that only returns an error refuses the name ("Variable %s could not set value")
					if len(cc.Body) == 1 {
						if rs, isRet := cc.Body[0].(*ast.ReturnStmt); isRet && len(rs.Results) > 0 {
							if call, isCall := rs.Results[len(rs.Results)-1].(*ast.CallExpr); isCall {
								if se, isSel := call.Fun.(*ast.SelectorExpr); isSel {
									if pkg, isId := se.X.(*ast.Ident); isId && (pkg.Name == "errors" || pkg.Name == "fmt" || pkg.Name == "exception") {
										continue
									}
								}
							}
						}
					}
					for _, e := range cc.List {
						switch l := e.(type) {
						case *ast.Ident:
							v, known := consts[l.Name]
							if !known {
								err = fmt.Errorf("case label %s is not a string constant", l.Name)
								return false
							}
							m.cases = append(m.cases, v)
						case *ast.BasicLit:
							v, _ := strconv.Unquote(l.Value)
							m.cases = append(m.cases, v)
						default:
							err = fmt.Errorf("unsupported case label %T", e)
							return false
						}
					}
				}
			}
		case *ast.BinaryExpr:
			// if name == "fastly.error" { ... }
			if t.Op == token.EQL {
				if id, ok := t.X.(*ast.Ident); ok && id.Name == "name" {
					switch l := t.Y.(type) {
					case *ast.Ident:
						if v, known := consts[l.Name]; known {
							m.cases = append(m.cases, v)
						}
					case *ast.BasicLit:
						if v, e := strconv.Unquote(l.Value); e == nil {
							m.cases = append(m.cases, v)
						}
					}
				}
			}
		case *ast.CallExpr:
			switch f := t.Fun.(type) {
			case *ast.Ident:
				if hasNameArg(t) {
					m.calls = append(m.calls, f.Name)
				}
			case *ast.SelectorExpr:
				if f.Sel.Name == "FindStringSubmatch" || f.Sel.Name == "MatchString" {
					if id, ok := f.X.(*ast.Ident); ok && hasNameArg(t) {
						m.regexes = append(m.regexes, id.Name)
					}
				} else if inner, ok := f.X.(*ast.SelectorExpr); ok && inner.Sel.Name == "base" && hasNameArg(t) {
					m.base = append(m.base, f.Sel.Name)
				} else if id, ok := f.X.(*ast.Ident); ok && id.Name == "v" && hasNameArg(t) && f.Sel.Name == "getFromRegex" {
					m.self = append(m.self, f.Sel.Name)
				}
			}
		}
		return true
	})
	m.cases, m.calls, m.regexes, m.base, m.self = uniq(m.cases), uniq(m.calls), uniq(m.regexes), uniq(m.base), uniq(m.self)
	return m, err
}

func (m *ivMethod) coq() string {
	return fmt.Sprintf("IVM %s %s %s %s %s %s", coqStrList(m.cases), coqStrList(m.calls), coqStrList(m.regexes),
		coqStrList(m.base), coqStrList(m.self), coqBool(m.lower))
}

func init() {
	register("InterpVars.v", func(repo string) (string, error) {
		files := []string{"all", "recv", "hash", "hit", "miss", "pass", "fetch", "error", "deliver", "log", "shared", "variable", "predefined", "ratecounter"}
		parsed := map[string]*ast.File{}
		consts := map[string]string{}
		for _, n := range files {
			_, f, err := parseFile(repo, "interpreter/variable/"+n+".go")
			if err != nil {
				return "", err
			}
			parsed[n] = f
			stringConsts(f, consts)
		}
		type entry struct{ key, val string }
		var methods, helpers, regexes []entry
		for _, n := range files {
			for _, d := range parsed[n].Decls {
				switch t := d.(type) {
				case *ast.FuncDecl:
					if t.Body == nil {
						continue
					}
					if t.Recv != nil && len(t.Recv.List) == 1 {
						star, ok := t.Recv.List[0].Type.(*ast.StarExpr)
						if !ok {
							continue
						}
						id, ok := star.X.(*ast.Ident)
						if !ok || !strings.HasSuffix(id.Name, "ScopeVariables") {
							continue
						}
						switch t.Name.Name {
						case "Get", "Set", "Unset", "getFromRegex":
							m, err := extractMethod(t.Body, consts)
							if err != nil {
								return "", fmt.Errorf("%s.%s: %w", id.Name, t.Name.Name, err)
							}
							methods = append(methods, entry{strings.TrimSuffix(id.Name, "ScopeVariables") + "." + t.Name.Name, m.coq()})
						}
						continue
					}
					// package-level dispatcher: has a parameter called name and switches on it
					hasName := false
					for _, p := range t.Type.Params.List {
						for _, pn := range p.Names {
							if pn.Name == "name" {
								hasName = true
							}
						}
					}
					if !hasName {
						continue
					}
					m, err := extractMethod(t.Body, consts)
					if err != nil {
						return "", fmt.Errorf("%s: %w", t.Name.Name, err)
					}
					if len(m.cases) > 0 || len(m.regexes) > 0 {
						helpers = append(helpers, entry{t.Name.Name, m.coq()})
					}
				case *ast.GenDecl:
					if t.Tok != token.VAR {
						continue
					}
					for _, s := range t.Specs {
						vs := s.(*ast.ValueSpec)
						for i, nm := range vs.Names {
							if i >= len(vs.Values) {
								continue
							}
							c, ok := vs.Values[i].(*ast.CallExpr)
							if !ok || len(c.Args) != 1 {
								continue
							}
							se, ok := c.Fun.(*ast.SelectorExpr)
							if !ok || se.Sel.Name != "MustCompile" {
								continue
							}
							bl, ok := c.Args[0].(*ast.BasicLit)
							if !ok {
								continue
							}
							pat, err := strconv.Unquote(bl.Value)
							if err != nil {
								return "", err
							}
							regexes = append(regexes, entry{nm.Name, coqStr(pat)})
						}
					}
				}
			}
		}
		for _, l := range [][]entry{methods, helpers, regexes} {
			sort.Slice(l, func(i, j int) bool { return l[i].key < l[j].key })
		}
		var b strings.Builder
		fmt.Fprintf(&b, tHeader, "interpreter/variable/*.go")
		emit := func(name, ty string, l []entry, paren bool) {
			fmt.Fprintf(&b, "Definition %s : list (string * %s) := [", name, ty)
			for i, e := range l {
				if i > 0 {
					b.WriteString(";")
				}
				if paren {
					fmt.Fprintf(&b, "\n(%s, %s)", coqStr(e.key), e.val)
				} else {
					fmt.Fprintf(&b, "\n(%s, %s)", coqStr(e.key), e.val)
				}
			}
			b.WriteString("].\n")
		}
		emit("interp_var_methods", "ivmethod", methods, true)
		emit("interp_var_helpers", "ivmethod", helpers, true)
		emit("interp_var_regexes", "string", regexes, false)
		return b.String(), nil
	})
}
