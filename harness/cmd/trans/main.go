// trans: translator from /repo sources (go/ast) to Coq definitions under coq/Gen.
// usage: trans <repo> <outdir>
// Each generator is registered in gens (one file per generated .v).
package main

import (
	"fmt"
	"os"
	"path/filepath"
	"sort"
)

type gen struct {
	name string // output file name (without dir)
	fn   func(repo string) (string, error)
}

var gens []gen

func register(name string, fn func(repo string) (string, error)) {
	gens = append(gens, gen{name, fn})
}

func main() {
	if len(os.Args) < 3 {
		fmt.Fprintln(os.Stderr, "usage: trans <repo> <outdir> [name...]")
		os.Exit(2)
	}
	repo, out := os.Args[1], os.Args[2]
	only := map[string]bool{}
	for _, n := range os.Args[3:] {
		only[n] = true
	}
	sort.Slice(gens, func(i, j int) bool { return gens[i].name < gens[j].name })
	for _, g := range gens {
		if len(only) > 0 && !only[g.name] {
			continue
		}
		s, err := g.fn(repo)
		if err != nil {
			fmt.Fprintf(os.Stderr, "trans: %s: %v\n", g.name, err)
			os.Exit(1)
		}
		p := filepath.Join(out, g.name)
		// write only if changed, so that make does not rebuild needlessly
		if old, err := os.ReadFile(p); err == nil && string(old) == s {
			continue
		}
		if err := os.WriteFile(p, []byte(s), 0o644); err != nil {
			fmt.Fprintln(os.Stderr, err)
			os.Exit(1)
		}
	}
}
