// trans: translator from /repo sources (go/ast) to Coq definitions under coq/Gen.
// usage: trans <repo> <outdir>
// Each generator is registered in gens (one file per generated .v).
package main

import (
	"fmt"
	"os"
	"path/filepath"
	"sort"
	"strings"
)

type gen struct {
	name string // output file name (without dir)
	fn   func(repo string) (string, error)
}

var gens []gen

func register(name string, fn func(repo string) (string, error)) {
	gens = append(gens, gen{name, fn})
}

func main() {
	if len(os.Args) < 3 {
		fmt.Fprintln(os.Stderr, "usage: trans <repo> <outdir> [name...]")
		os.Exit(2)
	}
	repo, out := os.Args[1], os.Args[2]
	only := map[string]bool{}
	for _, n := range os.Args[3:] {
		only[n] = true
	}
	failed := 0
	sort.Slice(gens, func(i, j int) bool { return gens[i].name < gens[j].name })
	for _, g := range gens {
		if len(only) > 0 && !only[g.name] {
			continue
		}
		s, err := g.fn(repo)
		if err != nil {
			// The source no longer has the shape this generator understands. That must not stop the
			// other generators (every property depends only on its own Gen files): emit a file that
			// does NOT compile, so exactly the theorems stated over this table stop checking and the
			// owning check goes on to search for a concrete failing input (or reports
			// no-failing-input-found naming this obligation).
			fmt.Fprintf(os.Stderr, "trans: %s: %v\n", g.name, err)
			failed++
			msg := strings.ReplaceAll(strings.ReplaceAll(err.Error(), "*)", "* )"), "\n", " ")
			s = "(* GENERATION FAILED - the tie to the source is broken: " + msg + " *)\n" +
				"Definition generation_of_" + strings.TrimSuffix(g.name, ".v") + "_failed : False := I.\n"
		}
		p := filepath.Join(out, g.name)
		// write only if changed, so that make does not rebuild needlessly
		if old, err := os.ReadFile(p); err == nil && string(old) == s {
			continue
		}
		if err := os.WriteFile(p, []byte(s), 0o644); err != nil {
			fmt.Fprintln(os.Stderr, err)
			os.Exit(1)
		}
	}
	if failed > 0 {
		fmt.Fprintf(os.Stderr, "trans: %d generator(s) failed; their Gen files were written as non-compiling stubs\n", failed)
	}
}
