package main

import (
	"fmt"
	"go/ast"
	"go/parser"
	"go/token"
	"os"
	"path/filepath"
	"reflect"
	"sort"
	"strings"
)

// fields of the configuration that formatter/*.go (tests excluded) reads
func fmtConfReads(repo string) ([]string, error) {
	dir := filepath.Join(repo, "formatter")
	ents, err := os.ReadDir(dir)
	if err != nil {
		return nil, err
	}
	seen := map[string]bool{}
	for _, e := range ents {
		if !strings.HasSuffix(e.Name(), ".go") || strings.HasSuffix(e.Name(), "_test.go") {
			continue
		}
		f, err := parser.ParseFile(token.NewFileSet(), filepath.Join(dir, e.Name()), nil, 0)
		if err != nil {
			return nil, err
		}
		ast.Inspect(f, func(n ast.Node) bool {
			sel, ok := n.(*ast.SelectorExpr)
			if !ok {
				return true
			}
			switch x := sel.X.(type) {
			case *ast.SelectorExpr:
				if x.Sel.Name == "conf" {
					seen[sel.Sel.Name] = true
				}
			case *ast.Ident:
				if x.Name == "conf" {
					seen[sel.Sel.Name] = true
				}
			}
			return true
		})
	}
	var out []string
	for k := range seen {
		out = append(out, k)
	}
	sort.Strings(out)
	return out, nil
}

// Gen/FmtConfig.v : the formatter options of config.FormatConfig (config/config.go):
// yaml name, Go type and default of every field that carries a yaml tag, in declaration order.
// Proofs/FmtConfigTie.v compares the list with the option record of the token model, so that
// a new, renamed, retyped or re-defaulted option breaks a reflexivity obligation naming it.
func init() {
	register("FmtConfig.v", func(repo string) (string, error) {
		_, f, err := parseFile(repo, "config/config.go")
		if err != nil {
			return "", err
		}
		var st *ast.StructType
		ast.Inspect(f, func(n ast.Node) bool {
			if ts, ok := n.(*ast.TypeSpec); ok && ts.Name.Name == "FormatConfig" {
				if s, ok := ts.Type.(*ast.StructType); ok {
					st = s
				}
			}
			return true
		})
		if st == nil {
			return "", fmt.Errorf("type FormatConfig struct not found in config/config.go")
		}
		var b strings.Builder
		b.WriteString("(* GENERATED from config/config.go (type FormatConfig) by trans; do not edit *)\nFrom Coq Require Import List Strings.String.\nImport ListNotations.\nLocal Open Scope string_scope.\n")
		b.WriteString("Definition fmt_fields : list (string * string * string) :=\n  [")
		n := 0
		var goNames []string
		for _, fld := range st.Fields.List {
			if fld.Tag == nil || len(fld.Names) != 1 {
				continue
			}
			tag := reflect.StructTag(strings.Trim(fld.Tag.Value, "`"))
			yaml, ok := tag.Lookup("yaml")
			if !ok {
				continue // CLI-only field (Overwrite)
			}
			ty := "?"
			if id, ok := fld.Type.(*ast.Ident); ok {
				ty = id.Name
			}
			if n > 0 {
				b.WriteString(";\n   ")
			}
			fmt.Fprintf(&b, "(%q, %q, %q)", yaml, ty, tag.Get("default"))
			goNames = append(goNames, fld.Names[0].Name)
			n++
		}
		b.WriteString("].\n")
		b.WriteString("Definition fmt_go_fields : list string :=\n  [")
		for i, g := range goNames {
			if i > 0 {
				b.WriteString("; ")
			}
			fmt.Fprintf(&b, "%q", g)
		}
		b.WriteString("].\n")
		// which options the formatter package reads at all (selector expressions <x>.conf.<Field> / conf.<Field>)
		reads, err := fmtConfReads(repo)
		if err != nil {
			return "", err
		}
		b.WriteString("Definition fmt_conf_reads : list string :=\n  [")
		for i, g := range reads {
			if i > 0 {
				b.WriteString("; ")
			}
			fmt.Fprintf(&b, "%q", g)
		}
		b.WriteString("].\n")
		return b.String(), nil
	})
}
