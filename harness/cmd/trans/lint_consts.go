package main

import (
	"fmt"
	"go/ast"
	"go/token"
	"strconv"
	"strings"
)

// Gen/LintGen.v : the spellings C04 / C12 depend on, read from the Go sources:
//   - the ignore directive keywords (linter/ignore.go const block falcoIgnore...),
//   - the characters strings.TrimLeft strips in parseIgnoreComment,
//   - the linter.Severity constants (linter/errors.go) as printed / encoded in JSON,
//   - the level words NewRunner accepts for rule overrides (the case labels of the switch over
//     strings.ToUpper(value) in cmd/falco/runner.go) with the severity each one selects,
//   - every rule name declared in linter/rules.go.
func init() {
	register("LintGen.v", func(repo string) (string, error) {
		var b strings.Builder
		b.WriteString("(* GENERATED from linter/ignore.go, linter/errors.go, linter/rules.go, cmd/falco/runner.go by trans; do not edit *)\n")
		b.WriteString("From Coq Require Import List Strings.String Strings.Byte.\nImport ListNotations.\nLocal Open Scope string_scope.\n\n")
		bs := func(s string) string { return "(list_byte_of_string " + coqString(s) + ")" }

		// ---- directive keywords
		_, f, err := parseFile(repo, "linter/ignore.go")
		if err != nil {
			return "", err
		}
		want := []string{"falcoIgnoreNextLine", "falcoIgnoreThisLine", "falcoIgnoreStart", "falcoIgnoreEnd"}
		consts := lintStringConsts(f)
		for _, n := range want {
			v, ok := consts[n]
			if !ok {
				return "", fmt.Errorf("linter/ignore.go: constant %s not found", n)
			}
			fmt.Fprintf(&b, "Definition %s : list byte := Eval compute in %s.\n", n, bs(v))
		}
		cut, err := trimLeftCutset(f)
		if err != nil {
			return "", err
		}
		fmt.Fprintf(&b, "Definition ignore_cutset : list byte := Eval compute in %s.\n\n", bs(cut))

		// ---- severities
		_, f, err = parseFile(repo, "linter/errors.go")
		if err != nil {
			return "", err
		}
		consts = lintStringConsts(f)
		for _, n := range []string{"ERROR", "WARNING", "INFO", "IGNORE"} {
			v, ok := consts[n]
			if !ok {
				return "", fmt.Errorf("linter/errors.go: severity constant %s not found", n)
			}
			fmt.Fprintf(&b, "Definition severity_%s : list byte := Eval compute in %s.\n", n, bs(v))
		}
		b.WriteString("Definition severity_strings : list (list byte) := [severity_ERROR; severity_WARNING; severity_INFO; severity_IGNORE].\n\n")

		// ---- override level words of NewRunner
		_, f, err = parseFile(repo, "cmd/falco/runner.go")
		if err != nil {
			return "", err
		}
		words, err := overrideWords(f)
		if err != nil {
			return "", err
		}
		b.WriteString("(* (word accepted after strings.ToUpper, linter severity constant it selects) *)\nDefinition override_words : list (list byte * list byte) := Eval compute in [\n")
		for i, w := range words {
			sep := ";"
			if i == len(words)-1 {
				sep = ""
			}
			fmt.Fprintf(&b, "  (%s, %s)%s\n", bs(w[0]), bs(w[1]), sep)
		}
		b.WriteString("].\n\n")

		// ---- rule names
		_, f, err = parseFile(repo, "linter/rules.go")
		if err != nil {
			return "", err
		}
		var rules []string
		for _, d := range f.Decls {
			gd, ok := d.(*ast.GenDecl)
			if !ok || gd.Tok != token.CONST {
				continue
			}
			for _, s := range gd.Specs {
				vs := s.(*ast.ValueSpec)
				for i := range vs.Names {
					if i < len(vs.Values) {
						if lit, ok := vs.Values[i].(*ast.BasicLit); ok && lit.Kind == token.STRING {
							v, _ := strconv.Unquote(lit.Value)
							rules = append(rules, v)
						}
					}
				}
			}
		}
		if len(rules) < 20 {
			return "", fmt.Errorf("linter/rules.go: only %d rule names found", len(rules))
		}
		b.WriteString("Definition rule_names : list (list byte) := Eval compute in [\n")
		for i, r := range rules {
			sep := ";"
			if i == len(rules)-1 {
				sep = ""
			}
			fmt.Fprintf(&b, "  %s%s\n", bs(r), sep)
		}
		b.WriteString("].\n")
		return b.String(), nil
	})
}

func lintStringConsts(f *ast.File) map[string]string {
	out := map[string]string{}
	for _, d := range f.Decls {
		gd, ok := d.(*ast.GenDecl)
		if !ok || gd.Tok != token.CONST {
			continue
		}
		for _, s := range gd.Specs {
			vs := s.(*ast.ValueSpec)
			for i, n := range vs.Names {
				if i < len(vs.Values) {
					if lit, ok := vs.Values[i].(*ast.BasicLit); ok && lit.Kind == token.STRING {
						v, _ := strconv.Unquote(lit.Value)
						out[n.Name] = v
					}
				}
			}
		}
	}
	return out
}

// the cutset of the strings.TrimLeft call in parseIgnoreComment
func trimLeftCutset(f *ast.File) (string, error) {
	var found string
	ast.Inspect(f, func(n ast.Node) bool {
		fd, ok := n.(*ast.FuncDecl)
		if !ok || fd.Name.Name != "parseIgnoreComment" {
			return true
		}
		ast.Inspect(fd, func(m ast.Node) bool {
			call, ok := m.(*ast.CallExpr)
			if !ok {
				return true
			}
			if sel, ok := call.Fun.(*ast.SelectorExpr); ok && sel.Sel.Name == "TrimLeft" && len(call.Args) == 2 {
				if lit, ok := call.Args[1].(*ast.BasicLit); ok {
					found, _ = strconv.Unquote(lit.Value)
				}
			}
			return true
		})
		return false
	})
	if found == "" {
		return "", fmt.Errorf("linter/ignore.go: strings.TrimLeft(comment, <cutset>) not found in parseIgnoreComment")
	}
	return found, nil
}

// the switch strings.ToUpper(value) { case "ERROR": r.overrides[key] = linter.ERROR ... } of NewRunner
func overrideWords(f *ast.File) ([][2]string, error) {
	var out [][2]string
	ast.Inspect(f, func(n ast.Node) bool {
		fd, ok := n.(*ast.FuncDecl)
		if !ok || fd.Name.Name != "NewRunner" {
			return true
		}
		ast.Inspect(fd, func(m ast.Node) bool {
			sw, ok := m.(*ast.SwitchStmt)
			if !ok {
				return true
			}
			call, ok := sw.Tag.(*ast.CallExpr)
			if !ok {
				return true
			}
			if sel, ok := call.Fun.(*ast.SelectorExpr); !ok || sel.Sel.Name != "ToUpper" {
				return true
			}
			for _, st := range sw.Body.List {
				cc := st.(*ast.CaseClause)
				if len(cc.List) != 1 || len(cc.Body) != 1 {
					continue
				}
				lit, ok := cc.List[0].(*ast.BasicLit)
				if !ok {
					continue
				}
				as, ok := cc.Body[0].(*ast.AssignStmt)
				if !ok || len(as.Rhs) != 1 {
					continue
				}
				sel, ok := as.Rhs[0].(*ast.SelectorExpr)
				if !ok {
					continue
				}
				w, _ := strconv.Unquote(lit.Value)
				out = append(out, [2]string{w, sel.Sel.Name})
			}
			return false
		})
		return false
	})
	if len(out) != 4 {
		return nil, fmt.Errorf("cmd/falco/runner.go: expected 4 override level words in NewRunner, found %d", len(out))
	}
	return out, nil
}
