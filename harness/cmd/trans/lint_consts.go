package main

import (
	"fmt"
	"go/ast"
	"go/token"
	"strconv"
	"strings"
)

// Gen/LintGen.v : the spellings C04 / C12 depend on, read from the Go sources:
//   - the ignore directive keywords (linter/ignore.go const block falcoIgnore...),
//   - the characters strings.TrimLeft strips in parseIgnoreComment,
//   - the linter.Severity constants (linter/errors.go) as printed / encoded in JSON,
//   - the level words NewRunner accepts for rule overrides (the case labels of the switch over
//     strings.ToUpper(value) in cmd/falco/runner.go) with the severity each one selects,
//   - every rule name declared in linter/rules.go.
func init() {
	register("LintGen.v", func(repo string) (string, error) {
		var b strings.Builder
		b.WriteString("(* GENERATED from linter/ignore.go, linter/errors.go, linter/rules.go, cmd/falco/runner.go by trans; do not edit *)\n")
		b.WriteString("From Coq Require Import List Strings.String Strings.Byte.\nImport ListNotations.\nLocal Open Scope string_scope.\n\n")
		bs := func(s string) string { return "(list_byte_of_string " + coqString(s) + ")" }

		// ---- directive keywords
		_, f, err := parseFile(repo, "linter/ignore.go")
		if err != nil {
			return "", err
		}
		want := []string{"falcoIgnoreNextLine", "falcoIgnoreThisLine", "falcoIgnoreStart", "falcoIgnoreEnd"}
		consts := lintStringConsts(f)
		for _, n := range want {
			v, ok := consts[n]
			if !ok {
				return "", fmt.Errorf("linter/ignore.go: constant %s not found", n)
			}
			fmt.Fprintf(&b, "Definition %s : list byte := Eval compute in %s.\n", n, bs(v))
		}
		cut, err := trimLeftCutset(f)
		if err != nil {
			return "", err
		}
		fmt.Fprintf(&b, "Definition ignore_cutset : list byte := Eval compute in %s.\n\n", bs(cut))

		// ---- severities
		_, f, err = parseFile(repo, "linter/errors.go")
		if err != nil {
			return "", err
		}
		consts = lintStringConsts(f)
		for _, n := range []string{"ERROR", "WARNING", "INFO", "IGNORE"} {
			v, ok := consts[n]
			if !ok {
				return "", fmt.Errorf("linter/errors.go: severity constant %s not found", n)
			}
			fmt.Fprintf(&b, "Definition severity_%s : list byte := Eval compute in %s.\n", n, bs(v))
		}
		b.WriteString("Definition severity_strings : list (list byte) := [severity_ERROR; severity_WARNING; severity_INFO; severity_IGNORE].\n\n")

		// ---- override level words of NewRunner
		_, f, err = parseFile(repo, "cmd/falco/runner.go")
		if err != nil {
			return "", err
		}
		words, err := overrideWords(f)
		if err != nil {
			return "", err
		}
		b.WriteString("(* (word accepted after strings.ToUpper, linter severity constant it selects) *)\nDefinition override_words : list (list byte * list byte) := Eval compute in [\n")
		for i, w := range words {
			sep := ";"
			if i == len(words)-1 {
				sep = ""
			}
			fmt.Fprintf(&b, "  (%s, %s)%s\n", bs(w[0]), bs(w[1]), sep)
		}
		b.WriteString("].\n\n")

		// ---- config/config.go: the flags and the yaml key that feed the verdict's configuration
		_, f, err = parseFile(repo, "config/config.go")
		if err != nil {
			return "", err
		}
		tags, err := fieldTags(f, map[string]string{"Json": "cli", "VerboseWarning": "cli", "VerboseInfo": "cli", "VerboseLevel": "yaml", "Rules": "yaml"})
		if err != nil {
			return "", err
		}
		fmt.Fprintf(&b, "Definition flag_json : list byte := Eval compute in %s.\n", bs(tags["Json"]))
		fmt.Fprintf(&b, "Definition flag_verbose_warning : list byte := Eval compute in %s.\n", bs(tags["VerboseWarning"]))
		fmt.Fprintf(&b, "Definition flag_verbose_info : list byte := Eval compute in %s.\n", bs(tags["VerboseInfo"]))
		fmt.Fprintf(&b, "Definition yaml_key_verbose : list byte := Eval compute in %s.\n", bs(tags["VerboseLevel"]))
		fmt.Fprintf(&b, "Definition yaml_key_rules : list byte := Eval compute in %s.\n", bs(tags["Rules"]))
		levels, err := verboseLevels(f)
		if err != nil {
			return "", err
		}
		b.WriteString("(* (value of the yaml verbose key, the config field it switches on) *)\nDefinition yaml_verbose_levels : list (list byte * list byte) := Eval compute in [\n")
		for i, w := range levels {
			sep := ";"
			if i == len(levels)-1 {
				sep = ""
			}
			fmt.Fprintf(&b, "  (%s, %s)%s\n", bs(w[0]), bs(w[1]), sep)
		}
		b.WriteString("].\n\n")

		// ---- rule names
		_, f, err = parseFile(repo, "linter/rules.go")
		if err != nil {
			return "", err
		}
		var rules []string
		for _, d := range f.Decls {
			gd, ok := d.(*ast.GenDecl)
			if !ok || gd.Tok != token.CONST {
				continue
			}
			for _, s := range gd.Specs {
				vs := s.(*ast.ValueSpec)
				for i := range vs.Names {
					if i < len(vs.Values) {
						if lit, ok := vs.Values[i].(*ast.BasicLit); ok && lit.Kind == token.STRING {
							v, _ := strconv.Unquote(lit.Value)
							rules = append(rules, v)
						}
					}
				}
			}
		}
		if len(rules) < 20 {
			return "", fmt.Errorf("linter/rules.go: only %d rule names found", len(rules))
		}
		b.WriteString("Definition rule_names : list (list byte) := Eval compute in [\n")
		for i, r := range rules {
			sep := ";"
			if i == len(rules)-1 {
				sep = ""
			}
			fmt.Fprintf(&b, "  %s%s\n", bs(r), sep)
		}
		b.WriteString("].\n")
		return b.String(), nil
	})
}

func lintStringConsts(f *ast.File) map[string]string {
	out := map[string]string{}
	for _, d := range f.Decls {
		gd, ok := d.(*ast.GenDecl)
		if !ok || gd.Tok != token.CONST {
			continue
		}
		for _, s := range gd.Specs {
			vs := s.(*ast.ValueSpec)
			for i, n := range vs.Names {
				if i < len(vs.Values) {
					if lit, ok := vs.Values[i].(*ast.BasicLit); ok && lit.Kind == token.STRING {
						v, _ := strconv.Unquote(lit.Value)
						out[n.Name] = v
					}
				}
			}
		}
	}
	return out
}

// the cutset of the strings.TrimLeft call in parseIgnoreComment
func trimLeftCutset(f *ast.File) (string, error) {
	var found string
	ast.Inspect(f, func(n ast.Node) bool {
		fd, ok := n.(*ast.FuncDecl)
		if !ok || fd.Name.Name != "parseIgnoreComment" {
			return true
		}
		ast.Inspect(fd, func(m ast.Node) bool {
			call, ok := m.(*ast.CallExpr)
			if !ok {
				return true
			}
			if sel, ok := call.Fun.(*ast.SelectorExpr); ok && sel.Sel.Name == "TrimLeft" && len(call.Args) == 2 {
				if lit, ok := call.Args[1].(*ast.BasicLit); ok {
					found, _ = strconv.Unquote(lit.Value)
				}
			}
			return true
		})
		return false
	})
	if found == "" {
		return "", fmt.Errorf("linter/ignore.go: strings.TrimLeft(comment, <cutset>) not found in parseIgnoreComment")
	}
	return found, nil
}

// the switch strings.ToUpper(value) { case "ERROR": r.overrides[key] = linter.ERROR ... } of NewRunner
func overrideWords(f *ast.File) ([][2]string, error) {
	var out [][2]string
	ast.Inspect(f, func(n ast.Node) bool {
		fd, ok := n.(*ast.FuncDecl)
		if !ok || fd.Name.Name != "NewRunner" {
			return true
		}
		ast.Inspect(fd, func(m ast.Node) bool {
			sw, ok := m.(*ast.SwitchStmt)
			if !ok {
				return true
			}
			call, ok := sw.Tag.(*ast.CallExpr)
			if !ok {
				return true
			}
			if sel, ok := call.Fun.(*ast.SelectorExpr); !ok || sel.Sel.Name != "ToUpper" {
				return true
			}
			for _, st := range sw.Body.List {
				cc := st.(*ast.CaseClause)
				if len(cc.List) != 1 || len(cc.Body) != 1 {
					continue
				}
				lit, ok := cc.List[0].(*ast.BasicLit)
				if !ok {
					continue
				}
				as, ok := cc.Body[0].(*ast.AssignStmt)
				if !ok || len(as.Rhs) != 1 {
					continue
				}
				sel, ok := as.Rhs[0].(*ast.SelectorExpr)
				if !ok {
					continue
				}
				w, _ := strconv.Unquote(lit.Value)
				out = append(out, [2]string{w, sel.Sel.Name})
			}
			return false
		})
		return false
	})
	if len(out) != 4 {
		return nil, fmt.Errorf("cmd/falco/runner.go: expected 4 override level words in NewRunner, found %d", len(out))
	}
	return out, nil
}

// the first name of the given struct tag of the named fields (any struct of the file)
func fieldTags(f *ast.File, want map[string]string) (map[string]string, error) {
	out := map[string]string{}
	ast.Inspect(f, func(n ast.Node) bool {
		st, ok := n.(*ast.StructType)
		if !ok {
			return true
		}
		for _, fld := range st.Fields.List {
			if fld.Tag == nil || len(fld.Names) != 1 {
				continue
			}
			key, ok := want[fld.Names[0].Name]
			if !ok {
				continue
			}
			if _, done := out[fld.Names[0].Name]; done {
				continue
			}
			raw, _ := strconv.Unquote(fld.Tag.Value)
			for _, part := range strings.Fields(raw) {
				if strings.HasPrefix(part, key+":") {
					v, _ := strconv.Unquote(strings.TrimPrefix(part, key+":"))
					out[fld.Names[0].Name] = strings.Split(v, ",")[0]
				}
			}
		}
		return true
	})
	for k := range want {
		if out[k] == "" {
			return nil, fmt.Errorf("config/config.go: struct tag of field %s not found", k)
		}
	}
	return out, nil
}

// switch c.Linter.VerboseLevel { case "warning": c.Linter.VerboseWarning = true ... }
func verboseLevels(f *ast.File) ([][2]string, error) {
	var out [][2]string
	ast.Inspect(f, func(n ast.Node) bool {
		sw, ok := n.(*ast.SwitchStmt)
		if !ok {
			return true
		}
		sel, ok := sw.Tag.(*ast.SelectorExpr)
		if !ok || sel.Sel.Name != "VerboseLevel" {
			return true
		}
		for _, st := range sw.Body.List {
			cc := st.(*ast.CaseClause)
			if len(cc.List) != 1 || len(cc.Body) != 1 {
				continue
			}
			lit, ok := cc.List[0].(*ast.BasicLit)
			as, ok2 := cc.Body[0].(*ast.AssignStmt)
			if !ok || !ok2 || len(as.Lhs) != 1 {
				continue
			}
			lhs, ok := as.Lhs[0].(*ast.SelectorExpr)
			if !ok {
				continue
			}
			w, _ := strconv.Unquote(lit.Value)
			out = append(out, [2]string{w, lhs.Sel.Name})
		}
		return false
	})
	if len(out) != 2 {
		return nil, fmt.Errorf("config/config.go: expected 2 cases in the switch over c.Linter.VerboseLevel, found %d", len(out))
	}
	return out, nil
}
