package main

import (
	"fmt"
	"go/ast"
	"go/token"
	"sort"
	"strconv"
	"strings"
)

// Gen/HdrTables.v (C17):
//   protected_headers : keys of limitations.protectedHeaders
//   field_pattern     : the regular expression text of interpreter/variable/field.go (const pattern)
//   quote_class       : the character class setField uses to decide on quoting
// Strings are emitted as lists of byte values (N).

func nlist(s string) string {
	var b strings.Builder
	b.WriteString("[")
	for i := 0; i < len(s); i++ {
		if i > 0 {
			b.WriteString("; ")
		}
		fmt.Fprintf(&b, "%d", s[i])
	}
	b.WriteString("]")
	return b.String()
}

func init() {
	register("HdrTables.v", func(repo string) (string, error) {
		var b strings.Builder
		b.WriteString("(* GENERATED from interpreter/limitations/protected_headers.go and interpreter/variable/field.go by trans; do not edit *)\nFrom Coq Require Import NArith List.\nImport ListNotations.\nLocal Open Scope N_scope.\n")

		// protectedHeaders map literal
		_, f, err := parseFile(repo, "interpreter/limitations/protected_headers.go")
		if err != nil {
			return "", err
		}
		var keys []string
		found := false
		ast.Inspect(f, func(n ast.Node) bool {
			vs, ok := n.(*ast.ValueSpec)
			if !ok || len(vs.Names) != 1 || vs.Names[0].Name != "protectedHeaders" || len(vs.Values) != 1 {
				return true
			}
			cl, ok := vs.Values[0].(*ast.CompositeLit)
			if !ok {
				return true
			}
			found = true
			for _, e := range cl.Elts {
				kv, ok := e.(*ast.KeyValueExpr)
				if !ok {
					continue
				}
				if lit, ok := kv.Key.(*ast.BasicLit); ok && lit.Kind == token.STRING {
					if s, err := strconv.Unquote(lit.Value); err == nil {
						keys = append(keys, s)
					}
				}
			}
			return false
		})
		if !found {
			return "", fmt.Errorf("protectedHeaders map literal not found")
		}
		sort.Strings(keys)
		b.WriteString("Definition protected_headers : list (list N) := [\n")
		for i, k := range keys {
			sep := ";"
			if i == len(keys)-1 {
				sep = ""
			}
			fmt.Fprintf(&b, "  %s%s (* %s *)\n", nlist(k), sep, k)
		}
		b.WriteString("].\n")

		// field.go: const pattern, and the regexp.MustCompile literal inside setField
		_, g, err := parseFile(repo, "interpreter/variable/field.go")
		if err != nil {
			return "", err
		}
		pattern, class := "", ""
		okp, okc := false, false
		ast.Inspect(g, func(n ast.Node) bool {
			switch t := n.(type) {
			case *ast.ValueSpec:
				if len(t.Names) == 1 && t.Names[0].Name == "pattern" && len(t.Values) == 1 {
					if lit, ok := t.Values[0].(*ast.BasicLit); ok {
						if s, err := strconv.Unquote(lit.Value); err == nil {
							pattern, okp = s, true
						}
					}
				}
			case *ast.FuncDecl:
				if t.Name.Name != "setField" {
					return true
				}
				ast.Inspect(t.Body, func(m ast.Node) bool {
					call, ok := m.(*ast.CallExpr)
					if !ok {
						return true
					}
					sel, ok := call.Fun.(*ast.SelectorExpr)
					if !ok || sel.Sel.Name != "MustCompile" || len(call.Args) != 1 {
						return true
					}
					if lit, ok := call.Args[0].(*ast.BasicLit); ok {
						if s, err := strconv.Unquote(lit.Value); err == nil {
							class, okc = s, true
						}
					}
					return true
				})
			}
			return true
		})
		if !okp || !okc {
			return "", fmt.Errorf("field.go: pattern constant or setField quoting class not found")
		}
		fmt.Fprintf(&b, "Definition field_pattern : list N := %s.\n", nlist(pattern))
		fmt.Fprintf(&b, "Definition quote_class : list N := %s.\n", nlist(class))
		return b.String(), nil
	})
}
