package main

import (
	"fmt"
	"go/ast"
	"go/token"
	"strconv"
	"strings"
)

// Gen/EvalConst.v : constants and guard sites of the simulator's bounding mechanisms (C08)
//   maxCallStackExceedCount            interpreter/subroutine.go
//   limitations.MaxVarnishRestarts     interpreter/limitations/limitations.go
//   call_guard_sites    : number of `if len(i.callStack) > maxCallStackExceedCount` statements in subroutine.go
//   restart_guard_sites : number of `if i.ctx.Restarts+1 > limitations.MaxVarnishRestarts` statements in
//                         statement.go (restart;) and interpreter.go (restart(), reached by return(restart))
//   include_guard_sites : number of range loops over the `including` stack in include.go

func constInt(f *ast.File, name string) (int, error) {
	for _, d := range f.Decls {
		gd, ok := d.(*ast.GenDecl)
		if !ok || gd.Tok != token.CONST {
			continue
		}
		for _, s := range gd.Specs {
			vs := s.(*ast.ValueSpec)
			for i, n := range vs.Names {
				if n.Name == name && i < len(vs.Values) {
					if bl, ok := vs.Values[i].(*ast.BasicLit); ok && bl.Kind == token.INT {
						return strconv.Atoi(bl.Value)
					}
					return 0, fmt.Errorf("const %s is not an integer literal", name)
				}
			}
		}
	}
	return 0, fmt.Errorf("const %s not found", name)
}

// constant integer expressions: literals, other constants of the same file, + and *
func constEval(f *ast.File, e ast.Expr, depth int) (int, error) {
	if depth > 8 {
		return 0, fmt.Errorf("constant expression too deep")
	}
	switch t := e.(type) {
	case *ast.BasicLit:
		return strconv.Atoi(t.Value)
	case *ast.Ident:
		return constExpr(f, t.Name, depth+1)
	case *ast.ParenExpr:
		return constEval(f, t.X, depth+1)
	case *ast.BinaryExpr:
		a, err := constEval(f, t.X, depth+1)
		if err != nil {
			return 0, err
		}
		b, err := constEval(f, t.Y, depth+1)
		if err != nil {
			return 0, err
		}
		switch t.Op {
		case token.MUL:
			return a * b, nil
		case token.ADD:
			return a + b, nil
		}
	}
	return 0, fmt.Errorf("unsupported constant expression")
}

func constExpr(f *ast.File, name string, depth int) (int, error) {
	for _, d := range f.Decls {
		gd, ok := d.(*ast.GenDecl)
		if !ok || gd.Tok != token.CONST {
			continue
		}
		for _, s := range gd.Specs {
			vs := s.(*ast.ValueSpec)
			for i, n := range vs.Names {
				if n.Name == name && i < len(vs.Values) {
					return constEval(f, vs.Values[i], depth)
				}
			}
		}
	}
	return 0, fmt.Errorf("const %s not found", name)
}

func exprText(e ast.Expr) string {
	switch t := e.(type) {
	case *ast.Ident:
		return t.Name
	case *ast.SelectorExpr:
		return exprText(t.X) + "." + t.Sel.Name
	case *ast.CallExpr:
		var a []string
		for _, x := range t.Args {
			a = append(a, exprText(x))
		}
		return exprText(t.Fun) + "(" + strings.Join(a, ",") + ")"
	case *ast.BinaryExpr:
		return exprText(t.X) + t.Op.String() + exprText(t.Y)
	case *ast.BasicLit:
		return t.Value
	case *ast.ParenExpr:
		return "(" + exprText(t.X) + ")"
	}
	return "?"
}

// number of if statements whose condition renders exactly as cond and whose body returns
func countGuards(f *ast.File, cond string) int {
	n := 0
	ast.Inspect(f, func(nd ast.Node) bool {
		if is, ok := nd.(*ast.IfStmt); ok && exprText(is.Cond) == cond {
			for _, st := range is.Body.List {
				if _, ok := st.(*ast.ReturnStmt); ok {
					n++
					break
				}
			}
		}
		return true
	})
	return n
}

func init() {
	register("EvalConst.v", func(repo string) (string, error) {
		_, sub, err := parseFile(repo, "interpreter/subroutine.go")
		if err != nil {
			return "", err
		}
		_, lim, err := parseFile(repo, "interpreter/limitations/limitations.go")
		if err != nil {
			return "", err
		}
		_, stm, err := parseFile(repo, "interpreter/statement.go")
		if err != nil {
			return "", err
		}
		_, itp, err := parseFile(repo, "interpreter/interpreter.go")
		if err != nil {
			return "", err
		}
		_, inc, err := parseFile(repo, "interpreter/include.go")
		if err != nil {
			return "", err
		}
		depth, err := constInt(sub, "maxCallStackExceedCount")
		if err != nil {
			return "", err
		}
		restarts, err := constInt(lim, "MaxVarnishRestarts")
		if err != nil {
			return "", err
		}
		callTree, err := constInt(lim, "MaxSubroutineCallTree")
		if err != nil {
			return "", err
		}
		workspace, err := constExpr(lim, "MaxRequestWorkspaceSize", 0)
		if err != nil {
			return "", err
		}
		callGuards := countGuards(sub, "len(i.callStack)>maxCallStackExceedCount")
		rg := "i.ctx.Restarts+1>limitations.MaxVarnishRestarts"
		restartGuards := countGuards(stm, rg) + countGuards(itp, rg)
		incGuards := 0
		ast.Inspect(inc, func(nd ast.Node) bool {
			if rs, ok := nd.(*ast.RangeStmt); ok && exprText(rs.X) == "including" {
				incGuards++
			}
			return true
		})
		var b strings.Builder
		b.WriteString("(* GENERATED from interpreter/subroutine.go, limitations/limitations.go, statement.go, interpreter.go, include.go by trans; do not edit *)\nFrom Coq Require Import ZArith.\n")
		fmt.Fprintf(&b, "Definition maxCallStackExceedCount : nat := %d.\n", depth)
		fmt.Fprintf(&b, "Definition MaxVarnishRestarts : nat := %d.\n", restarts)
		fmt.Fprintf(&b, "Definition MaxSubroutineCallTree : Z := %d%%Z.\n", callTree)
		fmt.Fprintf(&b, "Definition MaxRequestWorkspaceSize : Z := %d%%Z.\n", workspace)
		fmt.Fprintf(&b, "Definition call_guard_sites : nat := %d.\n", callGuards)
		fmt.Fprintf(&b, "Definition restart_guard_sites : nat := %d.\n", restartGuards)
		fmt.Fprintf(&b, "Definition include_guard_sites : nat := %d.\n", incGuards)
		return b.String(), nil
	})
}
