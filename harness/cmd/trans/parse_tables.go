package main

// Gen/TokenTypes.v   : token/token.go   - the TokenType constant block, the keywords map
// Gen/ParserTables.v : parser/parser.go - LOWEST..CALL iota block, precedences map, isDeclarationToken
//                      parser/expression_parser.go - prefix / infix / postfix registration maps
//                      parser/helper.go - assignmentOperators
// Everything is read with go/ast from the working tree; nothing is hard-coded here except the
// shapes that are accepted (anything else is an error, so a refactoring of the tables stops the
// build instead of being silently mistranslated).

import (
	"fmt"
	"go/ast"
	"go/token"
	"strconv"
	"strings"
)

func coqString(s string) string { return `"` + strings.ReplaceAll(s, `"`, `""`) + `"` }

// tokenConsts: NAME = "VALUE" specs of the big const block of token/token.go, in order
func tokenConsts(f *ast.File) (names, values []string, err error) {
	for _, d := range f.Decls {
		gd, ok := d.(*ast.GenDecl)
		if !ok || gd.Tok != token.CONST {
			continue
		}
		for _, s := range gd.Specs {
			vs := s.(*ast.ValueSpec)
			if len(vs.Names) != 1 || len(vs.Values) != 1 {
				return nil, nil, fmt.Errorf("token const: unsupported spec")
			}
			bl, ok := vs.Values[0].(*ast.BasicLit)
			if !ok || bl.Kind != token.STRING {
				return nil, nil, fmt.Errorf("token const %s: not a string literal", vs.Names[0].Name)
			}
			v, e := strconv.Unquote(bl.Value)
			if e != nil {
				return nil, nil, e
			}
			names = append(names, vs.Names[0].Name)
			values = append(values, v)
		}
	}
	if len(names) == 0 {
		return nil, nil, fmt.Errorf("no token constants found")
	}
	return names, values, nil
}

// findVarLit: the composite literal initialising package-level `var name = T{...}`
func findVarLit(f *ast.File, name string) (*ast.CompositeLit, error) {
	for _, d := range f.Decls {
		gd, ok := d.(*ast.GenDecl)
		if !ok || gd.Tok != token.VAR {
			continue
		}
		for _, s := range gd.Specs {
			vs := s.(*ast.ValueSpec)
			for i, n := range vs.Names {
				if n.Name == name && i < len(vs.Values) {
					if cl, ok := vs.Values[i].(*ast.CompositeLit); ok {
						return cl, nil
					}
				}
			}
		}
	}
	return nil, fmt.Errorf("var %s = {...} not found", name)
}

func tokSel(e ast.Expr) (string, error) {
	se, ok := e.(*ast.SelectorExpr)
	if !ok {
		return "", fmt.Errorf("expected token.X")
	}
	if id, ok := se.X.(*ast.Ident); !ok || id.Name != "token" {
		return "", fmt.Errorf("expected token.X")
	}
	return se.Sel.Name, nil
}

func init() {
	register("TokenTypes.v", func(repo string) (string, error) {
		_, f, err := parseFile(repo, "token/token.go")
		if err != nil {
			return "", err
		}
		names, values, err := tokenConsts(f)
		if err != nil {
			return "", err
		}
		var b strings.Builder
		b.WriteString("(* GENERATED from token/token.go by trans; do not edit *)\nFrom Coq Require Import NArith List String.\nImport ListNotations.\nLocal Open Scope string_scope.\n")
		b.WriteString("Inductive ttype :=")
		for _, n := range names {
			b.WriteString(" | T_" + n)
		}
		b.WriteString(".\nDefinition all_ttypes : list ttype := [")
		for i, n := range names {
			if i > 0 {
				b.WriteString("; ")
			}
			b.WriteString("T_" + n)
		}
		b.WriteString("].\nDefinition tcode (t : ttype) : N :=\n  match t with\n")
		for i, n := range names {
			fmt.Fprintf(&b, "  | T_%s => %d%%N\n", n, i)
		}
		b.WriteString("  end.\nDefinition tdecode (n : N) : option ttype :=\n  match n with\n")
		for i, n := range names {
			fmt.Fprintf(&b, "  | %d%%N => Some T_%s\n", i, n)
		}
		b.WriteString("  | _ => None\n  end.\n(* the Go string value of the constant *)\nDefinition tname (t : ttype) : string :=\n  match t with\n")
		for i, n := range names {
			fmt.Fprintf(&b, "  | T_%s => %s\n", n, coqString(values[i]))
		}
		b.WriteString("  end.\n")
		// keywords
		cl, err := findVarLit(f, "keywords")
		if err != nil {
			return "", err
		}
		b.WriteString("Definition keywords : list (string * ttype) := [\n")
		for i, el := range cl.Elts {
			kv, ok := el.(*ast.KeyValueExpr)
			if !ok {
				return "", fmt.Errorf("keywords: element %d is not key: value", i)
			}
			k, ok1 := kv.Key.(*ast.BasicLit)
			v, ok2 := kv.Value.(*ast.Ident)
			if !ok1 || !ok2 || k.Kind != token.STRING {
				return "", fmt.Errorf("keywords: element %d has an unsupported shape", i)
			}
			ks, _ := strconv.Unquote(k.Value)
			if i > 0 {
				b.WriteString(";\n")
			}
			fmt.Fprintf(&b, "  (%s, T_%s)", coqString(ks), v.Name)
		}
		b.WriteString("].\n")
		return b.String(), nil
	})

	register("ParserTables.v", func(repo string) (string, error) {
		var b strings.Builder
		b.WriteString("(* GENERATED from parser/parser.go, parser/expression_parser.go, parser/helper.go by trans; do not edit *)\n")
		b.WriteString("From Coq Require Import NArith List.\nFrom Falco Require Import Gen.TokenTypes Model.ParseKinds.\nImport ListNotations.\n")
		_, f, err := parseFile(repo, "parser/parser.go")
		if err != nil {
			return "", err
		}
		// --- precedence constants: `LOWEST int = iota + 1` followed by implicit repetitions
		var precNames []string
		for _, d := range f.Decls {
			gd, ok := d.(*ast.GenDecl)
			if !ok || gd.Tok != token.CONST || len(gd.Specs) == 0 {
				continue
			}
			first := gd.Specs[0].(*ast.ValueSpec)
			if len(first.Names) != 1 || first.Names[0].Name != "LOWEST" {
				continue
			}
			be, ok := first.Values[0].(*ast.BinaryExpr)
			if !ok || be.Op != token.ADD {
				return "", fmt.Errorf("precedence block: LOWEST is not `iota + 1`")
			}
			x, ok1 := be.X.(*ast.Ident)
			y, ok2 := be.Y.(*ast.BasicLit)
			if !ok1 || !ok2 || x.Name != "iota" || y.Value != "1" {
				return "", fmt.Errorf("precedence block: LOWEST is not `iota + 1`")
			}
			for i, s := range gd.Specs {
				vs := s.(*ast.ValueSpec)
				if i > 0 && (len(vs.Values) != 0 || vs.Type != nil) || len(vs.Names) != 1 {
					return "", fmt.Errorf("precedence block: spec %d is not an implicit repetition", i)
				}
				precNames = append(precNames, vs.Names[0].Name)
			}
		}
		if len(precNames) == 0 {
			return "", fmt.Errorf("precedence const block not found")
		}
		for i, n := range precNames {
			fmt.Fprintf(&b, "Definition P_%s : N := %d%%N.\n", n, i+1)
		}
		b.WriteString("Definition precedence_levels : list N := [")
		for i, n := range precNames {
			if i > 0 {
				b.WriteString("; ")
			}
			b.WriteString("P_" + n)
		}
		b.WriteString("].\n")
		// --- precedences map
		cl, err := findVarLit(f, "precedences")
		if err != nil {
			return "", err
		}
		b.WriteString("Definition precedences : list (ttype * N) := [\n")
		for i, el := range cl.Elts {
			kv, ok := el.(*ast.KeyValueExpr)
			if !ok {
				return "", fmt.Errorf("precedences: element %d", i)
			}
			k, err := tokSel(kv.Key)
			if err != nil {
				return "", fmt.Errorf("precedences: element %d: %v", i, err)
			}
			v, ok := kv.Value.(*ast.Ident)
			if !ok {
				return "", fmt.Errorf("precedences: element %d value", i)
			}
			if i > 0 {
				b.WriteString(";\n")
			}
			fmt.Fprintf(&b, "  (T_%s, P_%s)", k, v.Name)
		}
		b.WriteString("].\n")
		// --- isDeclarationToken: the case list of its switch
		var decls []string
		for _, d := range f.Decls {
			fd, ok := d.(*ast.FuncDecl)
			if !ok || fd.Name.Name != "isDeclarationToken" {
				continue
			}
			ast.Inspect(fd.Body, func(n ast.Node) bool {
				cc, ok := n.(*ast.CaseClause)
				if !ok || len(cc.List) == 0 {
					return true
				}
				for _, e := range cc.List {
					if k, err := tokSel(e); err == nil {
						decls = append(decls, k)
					}
				}
				return true
			})
		}
		if len(decls) == 0 {
			return "", fmt.Errorf("isDeclarationToken case list not found")
		}
		b.WriteString("Definition declaration_tokens : list ttype := [")
		for i, k := range decls {
			if i > 0 {
				b.WriteString("; ")
			}
			b.WriteString("T_" + k)
		}
		b.WriteString("].\n")

		// --- registration maps
		_, fe, err := parseFile(repo, "parser/expression_parser.go")
		if err != nil {
			return "", err
		}
		maps := map[string]*ast.CompositeLit{}
		for _, d := range fe.Decls {
			fd, ok := d.(*ast.FuncDecl)
			if !ok || fd.Name.Name != "registerExpressionParsers" {
				continue
			}
			for _, st := range fd.Body.List {
				as, ok := st.(*ast.AssignStmt)
				if !ok || len(as.Lhs) != 1 || len(as.Rhs) != 1 {
					return "", fmt.Errorf("registerExpressionParsers: unexpected statement")
				}
				se, ok := as.Lhs[0].(*ast.SelectorExpr)
				cl, ok2 := as.Rhs[0].(*ast.CompositeLit)
				if !ok || !ok2 {
					return "", fmt.Errorf("registerExpressionParsers: unexpected assignment")
				}
				maps[se.Sel.Name] = cl
			}
		}
		// method called by an entry: `p.M` or `func(...) { return p.M(args...) [, nil] }`
		entry := func(e ast.Expr) (string, []string, error) {
			switch v := e.(type) {
			case *ast.SelectorExpr:
				return v.Sel.Name, nil, nil
			case *ast.FuncLit:
				if len(v.Body.List) != 1 {
					return "", nil, fmt.Errorf("closure with %d statements", len(v.Body.List))
				}
				rs, ok := v.Body.List[0].(*ast.ReturnStmt)
				if !ok || len(rs.Results) == 0 {
					return "", nil, fmt.Errorf("closure does not return")
				}
				ce, ok := rs.Results[0].(*ast.CallExpr)
				if !ok {
					return "", nil, fmt.Errorf("closure does not return a call")
				}
				se, ok := ce.Fun.(*ast.SelectorExpr)
				if !ok {
					return "", nil, fmt.Errorf("closure does not call a method")
				}
				var extra []string
				for _, a := range ce.Args {
					id, ok := a.(*ast.Ident)
					if !ok {
						return "", nil, fmt.Errorf("closure argument is not an identifier")
					}
					if id.Name == "true" || id.Name == "false" {
						extra = append(extra, id.Name)
					}
				}
				return se.Sel.Name, extra, nil
			}
			return "", nil, fmt.Errorf("unsupported registration value")
		}
		for _, m := range []struct{ field, coq, ty, pre string }{
			{"prefixParsers", "prefix_parsers", "prefix_kind", "PK_"},
			{"infixParsers", "infix_parsers", "infix_kind", "IK_"},
			{"postfixParsers", "postfix_parsers", "postfix_kind", "QK_"},
		} {
			cl, ok := maps[m.field]
			if !ok {
				return "", fmt.Errorf("registration of %s not found", m.field)
			}
			fmt.Fprintf(&b, "Definition %s : list (ttype * %s) := [\n", m.coq, m.ty)
			for i, el := range cl.Elts {
				kv, ok := el.(*ast.KeyValueExpr)
				if !ok {
					return "", fmt.Errorf("%s: element %d", m.field, i)
				}
				k, err := tokSel(kv.Key)
				if err != nil {
					return "", fmt.Errorf("%s: element %d: %v", m.field, i, err)
				}
				meth, extra, err := entry(kv.Value)
				if err != nil {
					return "", fmt.Errorf("%s: %s: %v", m.field, k, err)
				}
				if i > 0 {
					b.WriteString(";\n")
				}
				if len(extra) > 0 {
					fmt.Fprintf(&b, "  (T_%s, %s%s %s)", k, m.pre, meth, strings.Join(extra, " "))
				} else {
					fmt.Fprintf(&b, "  (T_%s, %s%s)", k, m.pre, meth)
				}
			}
			b.WriteString("].\n")
		}
		// --- assignment operators
		_, fh, err := parseFile(repo, "parser/helper.go")
		if err != nil {
			return "", err
		}
		cl, err = findVarLit(fh, "assignmentOperators")
		if err != nil {
			return "", err
		}
		b.WriteString("Definition assignment_operators : list ttype := [")
		for i, el := range cl.Elts {
			kv, ok := el.(*ast.KeyValueExpr)
			if !ok {
				return "", fmt.Errorf("assignmentOperators: element %d", i)
			}
			k, err := tokSel(kv.Key)
			if err != nil {
				return "", err
			}
			if i > 0 {
				b.WriteString("; ")
			}
			b.WriteString("T_" + k)
		}
		b.WriteString("].\n")
		return b.String(), nil
	})
}
