package main

import (
	"fmt"
	"strings"
)

// Gen/CodecFrames.v : the FrameType iota block of ast/codec/codec.go
func init() {
	register("CodecFrames.v", func(repo string) (string, error) {
		_, f, err := parseFile(repo, "ast/codec/codec.go")
		if err != nil {
			return "", err
		}
		names, err := iotaBlock(f, "FrameType")
		if err != nil {
			return "", err
		}
		var b strings.Builder
		b.WriteString("(* GENERATED from ast/codec/codec.go by trans; do not edit *)\nFrom Coq Require Import NArith List.\nImport ListNotations.\nLocal Open Scope N_scope.\n")
		for i, n := range names {
			fmt.Fprintf(&b, "Definition FT_%s : N := %d.\n", n, i)
		}
		b.WriteString("Definition frame_types : list N := [")
		for i, n := range names {
			if i > 0 {
				b.WriteString("; ")
			}
			b.WriteString("FT_" + n)
		}
		b.WriteString("].\n")
		return b.String(), nil
	})
}
