package main

// Gen/ParserDispatch.v : the first-token dispatch of ParseStatement (parser/statement_parser.go),
// ParseSnippetVCL and Parse (parser/parser.go): which parse method each token type selects.
// A case whose body is `stmt, err = p.M()` becomes (T_X, SM_M); the IDENT case of the statement
// switches (an if / else between ParseFunctionCall and ParseGotoDestination) becomes SM_ident_dispatch;
// any other shape is an error.

import (
	"fmt"
	"go/ast"
	"strings"
)

func dispatchTable(f *ast.File, fn string) ([][2]string, error) {
	var out [][2]string
	var ferr error
	found := false
	for _, d := range f.Decls {
		fd, ok := d.(*ast.FuncDecl)
		if !ok || fd.Name.Name != fn {
			continue
		}
		ast.Inspect(fd.Body, func(n ast.Node) bool {
			sw, ok := n.(*ast.SwitchStmt)
			if !ok || found {
				return true
			}
			// switch p.curToken.Token.Type
			se, ok := sw.Tag.(*ast.SelectorExpr)
			if !ok || se.Sel.Name != "Type" {
				return true
			}
			found = true
			for _, c := range sw.Body.List {
				cc := c.(*ast.CaseClause)
				if len(cc.List) == 0 {
					continue // default: custom parsers / error
				}
				if len(cc.Body) == 0 {
					ferr = fmt.Errorf("%s: empty case body", fn)
					return false
				}
				var meth string
				switch b := cc.Body[0].(type) {
				case *ast.AssignStmt:
					if len(b.Rhs) != 1 {
						ferr = fmt.Errorf("%s: unsupported assignment", fn)
						return false
					}
					ce, ok := b.Rhs[0].(*ast.CallExpr)
					if !ok {
						ferr = fmt.Errorf("%s: case body is not a method call", fn)
						return false
					}
					ms, ok := ce.Fun.(*ast.SelectorExpr)
					if !ok || len(ce.Args) != 0 {
						ferr = fmt.Errorf("%s: case body is not p.M()", fn)
						return false
					}
					meth = ms.Sel.Name
				case *ast.IfStmt:
					meth = "ident_dispatch"
				default:
					ferr = fmt.Errorf("%s: unsupported case body", fn)
					return false
				}
				for _, e := range cc.List {
					k, err := tokSel(e)
					if err != nil {
						ferr = fmt.Errorf("%s: %v", fn, err)
						return false
					}
					out = append(out, [2]string{k, meth})
				}
			}
			return false
		})
	}
	if ferr != nil {
		return nil, ferr
	}
	if !found {
		return nil, fmt.Errorf("dispatch switch of %s not found", fn)
	}
	return out, nil
}

func init() {
	register("ParserDispatch.v", func(repo string) (string, error) {
		var b strings.Builder
		b.WriteString("(* GENERATED from parser/statement_parser.go and parser/parser.go by trans; do not edit *)\n")
		b.WriteString("From Coq Require Import List.\nFrom Falco Require Import Gen.TokenTypes Model.ParseKinds.\nImport ListNotations.\n")
		for _, t := range []struct{ file, fn, name string }{
			{"parser/statement_parser.go", "ParseStatement", "statement_dispatch"},
			{"parser/parser.go", "ParseSnippetVCL", "snippet_dispatch"},
			{"parser/parser.go", "Parse", "declaration_dispatch"},
		} {
			_, f, err := parseFile(repo, t.file)
			if err != nil {
				return "", err
			}
			tab, err := dispatchTable(f, t.fn)
			if err != nil {
				return "", err
			}
			fmt.Fprintf(&b, "Definition %s : list (ttype * stmt_method) := [\n", t.name)
			for i, e := range tab {
				if i > 0 {
					b.WriteString(";\n")
				}
				fmt.Fprintf(&b, "  (T_%s, SM_%s)", e[0], e[1])
			}
			b.WriteString("].\n")
		}
		return b.String(), nil
	})
}
