package main

import (
	"fmt"
	"go/ast"
	"go/parser"
	"go/token"
	"os"
	"path/filepath"
	"regexp"
	"sort"
	"strconv"
	"strings"
)

// Gen/FmtSpell.v : the words the formatter can write - every string literal of formatter/*.go
// (tests excluded), cut at white space, reduced to the words made of letters, digits and the
// punctuation of VCL.  Proofs/FmtSpellTie.v requires every token the token model INSERTS
// ("+", "unset", "else", "if", "(", ")", ",") to be one of them: a respelled keyword in the
// formatter breaks a reflexivity obligation naming it.
func init() {
	register("FmtSpell.v", func(repo string) (string, error) {
		dir := filepath.Join(repo, "formatter")
		ents, err := os.ReadDir(dir)
		if err != nil {
			return "", err
		}
		word := regexp.MustCompile(`^[A-Za-z0-9_+(),;{}=.%*/#-]{1,16}$`)
		seen := map[string]bool{}
		for _, e := range ents {
			if !strings.HasSuffix(e.Name(), ".go") || strings.HasSuffix(e.Name(), "_test.go") {
				continue
			}
			f, err := parser.ParseFile(token.NewFileSet(), filepath.Join(dir, e.Name()), nil, 0)
			if err != nil {
				return "", err
			}
			ast.Inspect(f, func(n ast.Node) bool {
				if _, ok := n.(*ast.ImportSpec); ok {
					return false
				}
				lit, ok := n.(*ast.BasicLit)
				if !ok || lit.Kind != token.STRING {
					return true
				}
				s, err := strconv.Unquote(lit.Value)
				if err != nil {
					return true
				}
				for _, w := range strings.Fields(s) {
					if word.MatchString(w) {
						seen[w] = true
					}
				}
				return true
			})
		}
		var ws []string
		for w := range seen {
			ws = append(ws, w)
		}
		sort.Strings(ws)
		var b strings.Builder
		b.WriteString("(* GENERATED from the string literals of formatter/*.go by trans; do not edit *)\nFrom Coq Require Import List Strings.String.\nImport ListNotations.\nLocal Open Scope string_scope.\n")
		b.WriteString("Definition fmt_go_words : list string :=\n  [")
		for i, w := range ws {
			if i > 0 {
				b.WriteString("; ")
			}
			fmt.Fprintf(&b, "\"%s\"", w)
		}
		b.WriteString("].\n")
		return b.String(), nil
	})
}
