package main

import (
	"fmt"
	"go/ast"
	"go/token"
	"strconv"
	"strings"
)

// Gen/LexOps.v : the `switch l.char` of (*Lexer).NextToken as a decision table.
//
//	op_table : list (N * optree)     one entry per `case <char>:` in source order
//	optree   := OLeaf ty lit         t = newToken(token.TY, l.char, ...) [; t.Literal = "lit"]   (lit = [] : the character itself)
//	          | OCall ty fn            t = newToken(token.TY, ...); t.Literal = l.fn()   (readEOL, readMultiComment)
//	          | OSpecial name        anything else (calls of readString, readEOL, long strings, EOF ...): named, not translated
//	          | OPeek cases dflt     if / switch on l.peekChar(); a case is (char, reads, subtree): reads = the
//	                                 case body starts with l.readChar()
//
// Type names are the rune lists T_* of Gen/Tokens.v.
func init() {
	register("LexOps.v", func(repo string) (string, error) {
		_, lx, err := parseFile(repo, "lexer/lexer.go")
		if err != nil {
			return "", err
		}
		var next *ast.FuncDecl
		for _, d := range lx.Decls {
			if fd, ok := d.(*ast.FuncDecl); ok && fd.Name.Name == "NextToken" && fd.Recv != nil {
				next = fd
			}
		}
		if next == nil {
			return "", fmt.Errorf("lexer: NextToken not found")
		}
		var sw *ast.SwitchStmt
		for _, st := range next.Body.List {
			if s, ok := st.(*ast.SwitchStmt); ok && isLChar(s.Tag) {
				if sw != nil {
					return "", fmt.Errorf("lexer: two `switch l.char` in NextToken")
				}
				sw = s
			}
		}
		if sw == nil {
			return "", fmt.Errorf("lexer: `switch l.char` not found in NextToken")
		}
		var b strings.Builder
		b.WriteString("(* GENERATED from lexer/lexer.go (NextToken) by trans; do not edit *)\nFrom Coq Require Import NArith List.\nFrom Falco Require Import Gen.Tokens.\nImport ListNotations.\nLocal Open Scope N_scope.\n")
		b.WriteString("Inductive optree :=\n| OLeaf (ty : list N) (lit : list N)\n| OCall (ty : list N) (fn : list N)\n| OSpecial (name : list N)\n| OPeek (cases : list (N * bool * optree)) (dflt : optree).\n")
		b.WriteString("Definition op_table : list (N * optree) := [\n")
		first := true
		for _, cc := range sw.Body.List {
			clause := cc.(*ast.CaseClause)
			if clause.List == nil {
				continue // default: identifiers, numbers, control syntaxes (not a table)
			}
			if len(clause.List) != 1 {
				return "", fmt.Errorf("lexer: case with several labels")
			}
			c, err := charLit(clause.List[0])
			if err != nil {
				return "", err
			}
			tree := opSeq(clause.Body)
			if !first {
				b.WriteString(";\n")
			}
			first = false
			fmt.Fprintf(&b, "  (%d, %s)", c, tree)
		}
		b.WriteString("\n].\n")
		return b.String(), nil
	})
}

func isLChar(e ast.Expr) bool {
	s, ok := e.(*ast.SelectorExpr)
	if !ok {
		return false
	}
	x, ok := s.X.(*ast.Ident)
	return ok && x.Name == "l" && s.Sel.Name == "char"
}

func isCallOn(e ast.Expr, recv, name string) bool {
	c, ok := e.(*ast.CallExpr)
	if !ok {
		return false
	}
	s, ok := c.Fun.(*ast.SelectorExpr)
	if !ok {
		return false
	}
	x, ok := s.X.(*ast.Ident)
	return ok && x.Name == recv && s.Sel.Name == name
}

func charLit(e ast.Expr) (int, error) {
	if l, ok := e.(*ast.BasicLit); ok {
		switch l.Kind {
		case token.CHAR:
			v, _, _, err := strconv.UnquoteChar(l.Value[1:len(l.Value)-1], '\'')
			return int(v), err
		case token.INT:
			v, err := strconv.ParseInt(l.Value, 0, 64)
			return int(v), err
		}
	}
	return 0, fmt.Errorf("lexer: case label is not a character literal")
}

func special(what string) string { return "OSpecial " + runesCoq(what) }

// opSeq translates the statements of a case body (after an optional leading l.readChar(), which
// the caller strips) into an optree.
func opSeq(body []ast.Stmt) string {
	// drop `index := l.index` (a shadow of the same value) and comments
	var sts []ast.Stmt
	for _, st := range body {
		if a, ok := st.(*ast.AssignStmt); ok && a.Tok == token.DEFINE && len(a.Lhs) == 1 {
			if id, ok := a.Lhs[0].(*ast.Ident); ok && id.Name == "index" && len(a.Rhs) == 1 {
				if s, ok := a.Rhs[0].(*ast.SelectorExpr); ok && s.Sel.Name == "index" {
					continue
				}
			}
		}
		sts = append(sts, st)
	}
	if len(sts) == 0 {
		return special("empty: the zero token")
	}
	// t = newToken(token.X, l.char, line, index) [; t.Literal = "..."]
	if ty, ok := newTokenAssign(sts[0]); ok {
		switch len(sts) {
		case 1:
			return fmt.Sprintf("OLeaf T_%s []", ty)
		case 2:
			if lit, ok := literalAssign(sts[1]); ok {
				return fmt.Sprintf("OLeaf T_%s %s", ty, runesCoq(lit))
			}
			// t.Literal = l.readEOL() / l.readMultiComment() ... : the literal is read by a loop of reader.go
			if fn, ok := literalCall(sts[1]); ok {
				return fmt.Sprintf("OCall T_%s %s", ty, runesCoq(fn))
			}
		}
		return special("newToken followed by other statements")
	}
	if len(sts) != 1 {
		return special("statement sequence")
	}
	switch st := sts[0].(type) {
	case *ast.IfStmt:
		// if l.peekChar() == 'c' { ... } else { ... }
		be, ok := st.Cond.(*ast.BinaryExpr)
		if !ok || be.Op != token.EQL || !isCallOn(be.X, "l", "peekChar") || st.Init != nil {
			return special("if")
		}
		c, err := charLit(be.Y)
		if err != nil {
			return special("if")
		}
		reads, rest := stripRead(st.Body.List)
		thenT := opSeq(rest)
		elseT := special("no else: the zero token")
		if st.Else != nil {
			blk, ok := st.Else.(*ast.BlockStmt)
			if !ok {
				return special("else if")
			}
			r2, rest2 := stripRead(blk.List)
			if r2 {
				return special("readChar in else")
			}
			elseT = opSeq(rest2)
		}
		return fmt.Sprintf("OPeek [(%d, %s, %s)] (%s)", c, lexBool(reads), thenT, elseT)
	case *ast.SwitchStmt:
		if st.Init != nil || !isCallOn(st.Tag, "l", "peekChar") {
			return special("switch")
		}
		var cases []string
		dflt := special("no default: the zero token")
		for _, cc := range st.Body.List {
			clause := cc.(*ast.CaseClause)
			reads, rest := stripRead(clause.Body)
			if clause.List == nil {
				if reads {
					return special("readChar in default")
				}
				dflt = opSeq(rest)
				continue
			}
			if len(clause.List) != 1 {
				return special("case with several labels")
			}
			c, err := charLit(clause.List[0])
			if err != nil {
				return special("case label")
			}
			cases = append(cases, fmt.Sprintf("(%d, %s, %s)", c, lexBool(reads), opSeq(rest)))
		}
		return fmt.Sprintf("OPeek [%s] (%s)", strings.Join(cases, "; "), dflt)
	}
	return special("statement")
}

func lexBool(b bool) string {
	if b {
		return "true"
	}
	return "false"
}

func stripRead(body []ast.Stmt) (bool, []ast.Stmt) {
	if len(body) > 0 {
		if es, ok := body[0].(*ast.ExprStmt); ok && isCallOn(es.X, "l", "readChar") {
			return true, body[1:]
		}
	}
	return false, body
}

// t = newToken(token.X, l.char, line, index)
func newTokenAssign(st ast.Stmt) (string, bool) {
	a, ok := st.(*ast.AssignStmt)
	if !ok || a.Tok != token.ASSIGN || len(a.Lhs) != 1 || len(a.Rhs) != 1 {
		return "", false
	}
	if id, ok := a.Lhs[0].(*ast.Ident); !ok || id.Name != "t" {
		return "", false
	}
	c, ok := a.Rhs[0].(*ast.CallExpr)
	if !ok || len(c.Args) != 4 {
		return "", false
	}
	if f, ok := c.Fun.(*ast.Ident); !ok || f.Name != "newToken" {
		return "", false
	}
	ty, ok := c.Args[0].(*ast.SelectorExpr)
	if !ok {
		return "", false
	}
	if x, ok := ty.X.(*ast.Ident); !ok || x.Name != "token" {
		return "", false
	}
	if !isLChar(c.Args[1]) {
		return "", false
	}
	if l, ok := c.Args[2].(*ast.Ident); !ok || l.Name != "line" {
		return "", false
	}
	if i, ok := c.Args[3].(*ast.Ident); !ok || i.Name != "index" {
		return "", false
	}
	return ty.Sel.Name, true
}

// t.Literal = l.fn()
func literalCall(st ast.Stmt) (string, bool) {
	a, ok := st.(*ast.AssignStmt)
	if !ok || a.Tok != token.ASSIGN || len(a.Lhs) != 1 || len(a.Rhs) != 1 {
		return "", false
	}
	s, ok := a.Lhs[0].(*ast.SelectorExpr)
	if !ok || s.Sel.Name != "Literal" {
		return "", false
	}
	if x, ok := s.X.(*ast.Ident); !ok || x.Name != "t" {
		return "", false
	}
	c, ok := a.Rhs[0].(*ast.CallExpr)
	if !ok || len(c.Args) != 0 {
		return "", false
	}
	f, ok := c.Fun.(*ast.SelectorExpr)
	if !ok {
		return "", false
	}
	if x, ok := f.X.(*ast.Ident); !ok || x.Name != "l" {
		return "", false
	}
	return f.Sel.Name, true
}

// t.Literal = "lit"
func literalAssign(st ast.Stmt) (string, bool) {
	a, ok := st.(*ast.AssignStmt)
	if !ok || a.Tok != token.ASSIGN || len(a.Lhs) != 1 || len(a.Rhs) != 1 {
		return "", false
	}
	s, ok := a.Lhs[0].(*ast.SelectorExpr)
	if !ok || s.Sel.Name != "Literal" {
		return "", false
	}
	if x, ok := s.X.(*ast.Ident); !ok || x.Name != "t" {
		return "", false
	}
	l, ok := a.Rhs[0].(*ast.BasicLit)
	if !ok || l.Kind != token.STRING {
		return "", false
	}
	v, err := strconv.Unquote(l.Value)
	if err != nil {
		return "", false
	}
	return v, true
}
