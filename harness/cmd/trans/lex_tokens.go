package main

import (
	"fmt"
	"go/ast"
	"go/token"
	"strconv"
	"strings"
)

// Gen/Tokens.v : the token type constants and the keyword map of token/token.go.
//
//	T_<NAME> : list N          the TokenType string of constant NAME, as runes
//	all_types                  every constant of the untyped string const block, in source order
//	keywords : list (list N * list N)   the `keywords` map literal, in source order: (spelling, type)
func init() {
	register("Tokens.v", func(repo string) (string, error) {
		_, f, err := parseFile(repo, "token/token.go")
		if err != nil {
			return "", err
		}
		consts := map[string]string{}
		var order []string
		for _, d := range f.Decls {
			gd, ok := d.(*ast.GenDecl)
			if !ok || gd.Tok != token.CONST {
				continue
			}
			for _, s := range gd.Specs {
				vs := s.(*ast.ValueSpec)
				if len(vs.Names) != 1 || len(vs.Values) != 1 {
					return "", fmt.Errorf("token.go: unsupported const spec %v", vs.Names)
				}
				lit, ok := vs.Values[0].(*ast.BasicLit)
				if !ok || lit.Kind != token.STRING {
					return "", fmt.Errorf("token.go: const %s is not a string literal", vs.Names[0].Name)
				}
				v, err := strconv.Unquote(lit.Value)
				if err != nil {
					return "", err
				}
				consts[vs.Names[0].Name] = v
				order = append(order, vs.Names[0].Name)
			}
		}
		var kws [][2]string
		found := false
		for _, d := range f.Decls {
			gd, ok := d.(*ast.GenDecl)
			if !ok || gd.Tok != token.VAR {
				continue
			}
			for _, s := range gd.Specs {
				vs := s.(*ast.ValueSpec)
				if len(vs.Names) != 1 || vs.Names[0].Name != "keywords" || len(vs.Values) != 1 {
					continue
				}
				cl, ok := vs.Values[0].(*ast.CompositeLit)
				if !ok {
					return "", fmt.Errorf("token.go: keywords is not a composite literal")
				}
				found = true
				for _, e := range cl.Elts {
					kv, ok := e.(*ast.KeyValueExpr)
					if !ok {
						return "", fmt.Errorf("token.go: keywords element is not key: value")
					}
					k, ok1 := kv.Key.(*ast.BasicLit)
					v, ok2 := kv.Value.(*ast.Ident)
					if !ok1 || !ok2 || k.Kind != token.STRING {
						return "", fmt.Errorf("token.go: unsupported keywords entry")
					}
					ks, err := strconv.Unquote(k.Value)
					if err != nil {
						return "", err
					}
					if _, ok := consts[v.Name]; !ok {
						return "", fmt.Errorf("token.go: keywords refers to unknown constant %s", v.Name)
					}
					kws = append(kws, [2]string{ks, v.Name})
				}
			}
		}
		if !found {
			return "", fmt.Errorf("token.go: var keywords not found")
		}
		var b strings.Builder
		b.WriteString("(* GENERATED from token/token.go by trans; do not edit *)\nFrom Coq Require Import NArith List.\nImport ListNotations.\nLocal Open Scope N_scope.\n")
		for _, n := range order {
			fmt.Fprintf(&b, "Definition T_%s : list N := %s. (* %q *)\n", n, runesCoq(consts[n]), consts[n])
		}
		b.WriteString("Definition all_types : list (list N) := [")
		for i, n := range order {
			if i > 0 {
				b.WriteString("; ")
			}
			b.WriteString("T_" + n)
		}
		b.WriteString("].\nDefinition keywords : list (list N * list N) := [\n")
		for i, kv := range kws {
			sep := ";"
			if i == len(kws)-1 {
				sep = ""
			}
			fmt.Fprintf(&b, "  (%s, T_%s)%s (* %q *)\n", runesCoq(kv[0]), kv[1], sep, kv[0])
		}
		b.WriteString("].\n")
		return b.String(), nil
	})
}

func runesCoq(s string) string {
	var parts []string
	for _, r := range s {
		parts = append(parts, strconv.Itoa(int(r)))
	}
	return "[" + strings.Join(parts, "; ") + "]"
}
