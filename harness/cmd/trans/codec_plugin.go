package main

import (
	"fmt"
	"go/ast"
	"go/parser"
	"go/token"
	"os"
	"path/filepath"
	"sort"
	"strings"
)

// Gen/CodecPlugin.v : the statement kinds on the plugin path of C19
//   lint_statement_types  : the type union plugin.LintStatement            (plugin/linter.go)
//   ast_statement_types   : receivers of a method Statement() in package ast (ast/*.go)
//   lint_switch_types     : case types of the type switch of (*Linter).lint  (linter/linter.go),
//                           the function that hands every ast.Statement to customLint
//   encoder_switch_types  : case types of the type switch of (*Encoder).encode (ast/codec/encoder.go)
func init() {
	register("CodecPlugin.v", func(repo string) (string, error) {
		union, err := lintStatementUnion(repo)
		if err != nil {
			return "", err
		}
		stmts, err := astStatementTypes(repo)
		if err != nil {
			return "", err
		}
		lintSw, err := typeSwitchCases(repo, "linter/linter.go", "Linter", "lint")
		if err != nil {
			return "", err
		}
		encSw, err := typeSwitchCases(repo, "ast/codec/encoder.go", "Encoder", "encode")
		if err != nil {
			return "", err
		}
		// customLint must be called by lint on every ast.Statement, before the dispatch
		if err := lintCallsCustomLint(repo); err != nil {
			return "", err
		}
		var b strings.Builder
		b.WriteString("(* GENERATED from plugin/linter.go, ast/*.go, linter/linter.go, ast/codec/encoder.go by trans; do not edit *)\n")
		b.WriteString("From Coq Require Import String List.\nImport ListNotations.\nLocal Open Scope string_scope.\n")
		emit := func(name string, l []string) {
			fmt.Fprintf(&b, "Definition %s : list string := [", name)
			for i, n := range l {
				if i > 0 {
					b.WriteString("; ")
				}
				fmt.Fprintf(&b, "%q", n)
			}
			b.WriteString("].\n")
		}
		emit("lint_statement_types", union)
		emit("ast_statement_types", stmts)
		emit("lint_switch_types", lintSw)
		emit("encoder_switch_types", encSw)
		return b.String(), nil
	})
}

func starAstName(e ast.Expr) (string, bool) {
	st, ok := e.(*ast.StarExpr)
	if !ok {
		return "", false
	}
	sel, ok := st.X.(*ast.SelectorExpr)
	if !ok {
		return "", false
	}
	if id, ok := sel.X.(*ast.Ident); !ok || id.Name != "ast" {
		return "", false
	}
	return sel.Sel.Name, true
}

func lintStatementUnion(repo string) ([]string, error) {
	_, f, err := parseFile(repo, "plugin/linter.go")
	if err != nil {
		return nil, err
	}
	for _, d := range f.Decls {
		gd, ok := d.(*ast.GenDecl)
		if !ok || gd.Tok != token.TYPE {
			continue
		}
		for _, s := range gd.Specs {
			ts := s.(*ast.TypeSpec)
			if ts.Name.Name != "LintStatement" {
				continue
			}
			it, ok := ts.Type.(*ast.InterfaceType)
			if !ok || it.Methods == nil || len(it.Methods.List) != 1 {
				return nil, fmt.Errorf("LintStatement is not a single type union")
			}
			var out []string
			var walk func(e ast.Expr) error
			walk = func(e ast.Expr) error {
				if be, ok := e.(*ast.BinaryExpr); ok && be.Op == token.OR {
					if err := walk(be.X); err != nil {
						return err
					}
					return walk(be.Y)
				}
				n, ok := starAstName(e)
				if !ok {
					return fmt.Errorf("LintStatement: union member is not *ast.X")
				}
				out = append(out, n)
				return nil
			}
			if err := walk(it.Methods.List[0].Type); err != nil {
				return nil, err
			}
			return out, nil
		}
	}
	return nil, fmt.Errorf("type LintStatement not found in plugin/linter.go")
}

func astStatementTypes(repo string) ([]string, error) {
	dir := filepath.Join(repo, "ast")
	ents, err := os.ReadDir(dir)
	if err != nil {
		return nil, err
	}
	var out []string
	for _, e := range ents {
		if e.IsDir() || !strings.HasSuffix(e.Name(), ".go") || strings.HasSuffix(e.Name(), "_test.go") {
			continue
		}
		f, err := parser.ParseFile(token.NewFileSet(), filepath.Join(dir, e.Name()), nil, 0)
		if err != nil {
			return nil, err
		}
		for _, d := range f.Decls {
			fd, ok := d.(*ast.FuncDecl)
			if !ok || fd.Name.Name != "Statement" || fd.Recv == nil || len(fd.Recv.List) != 1 {
				continue
			}
			if fd.Type.Params != nil && len(fd.Type.Params.List) != 0 {
				continue
			}
			if st, ok := fd.Recv.List[0].Type.(*ast.StarExpr); ok {
				if id, ok := st.X.(*ast.Ident); ok {
					out = append(out, id.Name)
				}
			}
		}
	}
	sort.Strings(out)
	if len(out) == 0 {
		return nil, fmt.Errorf("no Statement() receivers found in ast/")
	}
	return out, nil
}

func cpFindMethod(f *ast.File, recv, name string) *ast.FuncDecl {
	for _, d := range f.Decls {
		fd, ok := d.(*ast.FuncDecl)
		if !ok || fd.Name.Name != name || fd.Recv == nil || len(fd.Recv.List) != 1 {
			continue
		}
		if st, ok := fd.Recv.List[0].Type.(*ast.StarExpr); ok {
			if id, ok := st.X.(*ast.Ident); ok && id.Name == recv {
				return fd
			}
		}
	}
	return nil
}

// case types *ast.X of the first type switch in the body of (recv).name
func typeSwitchCases(repo, rel, recv, name string) ([]string, error) {
	_, f, err := parseFile(repo, rel)
	if err != nil {
		return nil, err
	}
	fd := cpFindMethod(f, recv, name)
	if fd == nil || fd.Body == nil {
		return nil, fmt.Errorf("%s: method (%s).%s not found", rel, recv, name)
	}
	var out []string
	for _, st := range fd.Body.List {
		ts, ok := st.(*ast.TypeSwitchStmt)
		if !ok {
			continue
		}
		for _, c := range ts.Body.List {
			cc := c.(*ast.CaseClause)
			for _, e := range cc.List {
				if n, ok := starAstName(e); ok {
					out = append(out, n)
				}
			}
		}
		return out, nil
	}
	return nil, fmt.Errorf("%s: (%s).%s has no top-level type switch", rel, recv, name)
}

// (*Linter).lint must start with:  if stmt, ok := node.(ast.Statement); ok { l.customLint(stmt) }
func lintCallsCustomLint(repo string) error {
	_, f, err := parseFile(repo, "linter/linter.go")
	if err != nil {
		return err
	}
	fd := cpFindMethod(f, "Linter", "lint")
	if fd == nil || fd.Body == nil || len(fd.Body.List) == 0 {
		return fmt.Errorf("linter/linter.go: (Linter).lint not found")
	}
	is, ok := fd.Body.List[0].(*ast.IfStmt)
	if !ok || is.Init == nil || is.Else != nil || len(is.Body.List) != 1 {
		return fmt.Errorf("(Linter).lint no longer starts with the customLint hand-off")
	}
	as, ok := is.Init.(*ast.AssignStmt)
	if !ok || len(as.Rhs) != 1 {
		return fmt.Errorf("(Linter).lint: unexpected hand-off condition")
	}
	ta, ok := as.Rhs[0].(*ast.TypeAssertExpr)
	if !ok {
		return fmt.Errorf("(Linter).lint: hand-off is not a type assertion")
	}
	if sel, ok := ta.Type.(*ast.SelectorExpr); !ok || sel.Sel.Name != "Statement" {
		return fmt.Errorf("(Linter).lint: hand-off does not assert ast.Statement")
	}
	es, ok := is.Body.List[0].(*ast.ExprStmt)
	if !ok {
		return fmt.Errorf("(Linter).lint: hand-off body is not a call")
	}
	call, ok := es.X.(*ast.CallExpr)
	if !ok {
		return fmt.Errorf("(Linter).lint: hand-off body is not a call")
	}
	if sel, ok := call.Fun.(*ast.SelectorExpr); !ok || sel.Sel.Name != "customLint" {
		return fmt.Errorf("(Linter).lint: hand-off does not call customLint")
	}
	return nil
}
