package main

import (
	"fmt"
	"go/ast"
	"go/parser"
	"go/token"
	"path/filepath"
)

func parseFile(repo, rel string) (*token.FileSet, *ast.File, error) {
	fset := token.NewFileSet()
	f, err := parser.ParseFile(fset, filepath.Join(repo, rel), nil, parser.ParseComments)
	return fset, f, err
}

// iotaBlock returns the names of the const block whose first spec has the given type name,
// in order, with their iota values (only plain `X T = iota` + implicit repetition supported).
func iotaBlock(f *ast.File, typeName string) ([]string, error) {
	for _, d := range f.Decls {
		gd, ok := d.(*ast.GenDecl)
		if !ok || gd.Tok != token.CONST || len(gd.Specs) == 0 {
			continue
		}
		first := gd.Specs[0].(*ast.ValueSpec)
		id, ok := first.Type.(*ast.Ident)
		if !ok || id.Name != typeName {
			continue
		}
		if len(first.Values) != 1 {
			return nil, fmt.Errorf("unsupported const block for %s", typeName)
		}
		if v, ok := first.Values[0].(*ast.Ident); !ok || v.Name != "iota" {
			return nil, fmt.Errorf("const block for %s does not start with iota", typeName)
		}
		var names []string
		for i, s := range gd.Specs {
			vs := s.(*ast.ValueSpec)
			if i > 0 && (len(vs.Values) != 0 || vs.Type != nil) {
				return nil, fmt.Errorf("const block for %s: spec %d is not an implicit repetition", typeName, i)
			}
			if len(vs.Names) != 1 {
				return nil, fmt.Errorf("const block for %s: multiple names in one spec", typeName)
			}
			names = append(names, vs.Names[0].Name)
		}
		return names, nil
	}
	return nil, fmt.Errorf("const block of type %s not found", typeName)
}
