package main

// Gen/StringSites.v (C09): every call site in parser/, linter/, interpreter/, tester/ (non-test
// files, sub-packages included) that calls .String() on a value whose static type implements
// ast.Node - these render the comments attached to the node - outside error-message construction.
//
// Types come from go/types.  falco's own packages are type-checked from the repository sources;
// the standard library is imported from GOROOT sources (importer "source", cgo off); third-party
// modules are replaced by empty packages and the resulting type errors are ignored: an
// expression whose type depends on a third-party package is never an ast.Node.

import (
	"bytes"
	"fmt"
	"go/ast"
	"go/build"
	"go/importer"
	"go/parser"
	"go/printer"
	"go/token"
	"go/types"
	"os"
	"path/filepath"
	"sort"
	"strings"
)

const falcoMod = "github.com/ysugimoto/falco/v2"

type ssImporter struct {
	repo  string
	fset  *token.FileSet
	std   types.Importer
	pkgs  map[string]*types.Package
	files map[string][]*ast.File
	infos map[string]*types.Info
}

func (im *ssImporter) Import(path string) (*types.Package, error) {
	if p, ok := im.pkgs[path]; ok {
		return p, nil
	}
	if path == "unsafe" {
		return types.Unsafe, nil
	}
	if path == falcoMod || strings.HasPrefix(path, falcoMod+"/") {
		return im.check(path)
	}
	first := strings.SplitN(path, "/", 2)[0]
	if !strings.Contains(first, ".") {
		if p, err := im.std.Import(path); err == nil {
			im.pkgs[path] = p
			return p, nil
		}
	}
	// third-party (or unloadable) package: empty stand-in
	name := path[strings.LastIndex(path, "/")+1:]
	name = strings.NewReplacer("-", "_", ".", "_").Replace(name)
	p := types.NewPackage(path, name)
	p.MarkComplete()
	im.pkgs[path] = p
	return p, nil
}

func (im *ssImporter) check(path string) (*types.Package, error) {
	dir := filepath.Join(im.repo, strings.TrimPrefix(strings.TrimPrefix(path, falcoMod), "/"))
	ents, err := os.ReadDir(dir)
	if err != nil {
		return nil, err
	}
	var files []*ast.File
	for _, e := range ents {
		n := e.Name()
		if e.IsDir() || !strings.HasSuffix(n, ".go") || strings.HasSuffix(n, "_test.go") {
			continue
		}
		full := filepath.Join(dir, n)
		if ok, _ := build.Default.MatchFile(dir, n); !ok {
			continue
		}
		f, err := parser.ParseFile(im.fset, full, nil, 0)
		if err != nil {
			return nil, err
		}
		files = append(files, f)
	}
	info := &types.Info{Types: map[ast.Expr]types.TypeAndValue{}, Selections: map[*ast.SelectorExpr]*types.Selection{}}
	conf := types.Config{Importer: im, Error: func(error) {}, FakeImportC: true}
	name := path
	pkg, _ := conf.Check(name, im.fset, files, info)
	im.pkgs[path] = pkg
	im.files[path] = files
	im.infos[path] = info
	return pkg, nil
}

// call names whose arguments build an error / diagnostic message
var errCallNames = map[string]bool{
	"Errorf": true, "New": true, "Runtime": true, "System": true, "WithStack": true, "Wrap": true, "Wrapf": true,
	"Error": true, "MaxCallStackExceeded": true, "Fatal": true, "Fatalf": true, "Panic": true, "Panicf": true,
}

func sitesExprText(fset *token.FileSet, e ast.Expr) string {
	var b bytes.Buffer
	printer.Fprint(&b, fset, e)
	return strings.Join(strings.Fields(b.String()), " ")
}

func newSSImporter(repo string, fset *token.FileSet) *ssImporter {
	build.Default.CgoEnabled = false
	return &ssImporter{repo: repo, fset: fset, std: importer.ForCompiler(fset, "source", nil),
		pkgs: map[string]*types.Package{}, files: map[string][]*ast.File{}, infos: map[string]*types.Info{}}
}

func init() {
	register("StringSites.v", func(repo string) (string, error) {
		build.Default.CgoEnabled = false
		fset := token.NewFileSet()
		im := newSSImporter(repo, fset)
		astPkg, err := im.Import(falcoMod + "/ast")
		if err != nil || astPkg == nil {
			return "", fmt.Errorf("cannot type-check package ast: %v", err)
		}
		nodeObj := astPkg.Scope().Lookup("Node")
		if nodeObj == nil {
			return "", fmt.Errorf("ast.Node not found")
		}
		nodeIface, ok := nodeObj.Type().Underlying().(*types.Interface)
		if !ok {
			return "", fmt.Errorf("ast.Node is not an interface")
		}
		// packages under the four roots
		var paths []string
		for _, root := range []string{"parser", "linter", "interpreter", "tester"} {
			filepath.Walk(filepath.Join(repo, root), func(p string, fi os.FileInfo, err error) error {
				if err == nil && fi.IsDir() {
					if ms, _ := filepath.Glob(filepath.Join(p, "*.go")); len(ms) > 0 {
						rel, _ := filepath.Rel(repo, p)
						paths = append(paths, falcoMod+"/"+filepath.ToSlash(rel))
					}
				}
				return nil
			})
		}
		sort.Strings(paths)
		type site struct{ file, fn, expr, kind string }
		var sites []site
		for _, path := range paths {
			if _, err := im.Import(path); err != nil {
				return "", err
			}
			info := im.infos[path]
			for _, f := range im.files[path] {
				fname, _ := filepath.Rel(repo, fset.Position(f.Pos()).Filename)
				var stack []ast.Node
				ast.Inspect(f, func(n ast.Node) bool {
					if n == nil {
						stack = stack[:len(stack)-1]
						return true
					}
					stack = append(stack, n)
					call, ok := n.(*ast.CallExpr)
					if !ok {
						return true
					}
					sel, ok := call.Fun.(*ast.SelectorExpr)
					if !ok {
						return true
					}
					isNode := func(e ast.Expr) bool {
						tv, ok := info.Types[e]
						if !ok || tv.Type == nil {
							return false
						}
						t := tv.Type
						if b, ok := t.(*types.Basic); ok && b.Kind() == types.Invalid {
							return false
						}
						if _, isIface := t.Underlying().(*types.Interface); isIface && !types.Implements(t, nodeIface) {
							return false
						}
						return types.Implements(t, nodeIface) || types.Implements(types.NewPointer(t), nodeIface)
					}
					var recv ast.Expr
					if sel.Sel.Name == "String" && len(call.Args) == 0 && isNode(sel.X) {
						recv = sel.X
					} else if id, ok := sel.X.(*ast.Ident); ok && id.Name == "fmt" {
						// implicit rendering through fmt verbs: fmt.Sprintf("%s", node)
						for _, a := range call.Args {
							if isNode(a) {
								recv = a
							}
						}
					}
					if recv == nil {
						return true
					}
					// classification: inside the construction of an error / diagnostic message?
					kind := "use"
					fn := "(file scope)"
					for i := len(stack) - 2; i >= 0; i-- {
						switch a := stack[i].(type) {
						case *ast.CallExpr:
							name := ""
							switch g := a.Fun.(type) {
							case *ast.SelectorExpr:
								name = g.Sel.Name
							case *ast.Ident:
								name = g.Name
							}
							if errCallNames[name] {
								kind = "errmsg"
							}
						case *ast.KeyValueExpr:
							if id, ok := a.Key.(*ast.Ident); ok && id.Name == "Message" {
								kind = "errmsg"
							}
						case *ast.FuncDecl:
							fn = a.Name.Name
							// constructors of diagnostics (linter/errors.go) return *LintError
							if a.Type.Results != nil {
								for _, r := range a.Type.Results.List {
									rt := sitesExprText(fset, r.Type)
									if rt == "*LintError" || rt == "*exception.Exception" {
										kind = "errmsg"
									}
								}
							}
						}
					}
					// String() methods that render a node by rendering its children are themselves renderers
					if fn == "String" {
						kind = "renderer"
					}
					sites = append(sites, site{filepath.ToSlash(fname), fn, sitesExprText(fset, recv), kind})
					return true
				})
			}
		}
		sort.SliceStable(sites, func(i, j int) bool {
			if sites[i].file != sites[j].file {
				return sites[i].file < sites[j].file
			}
			return false
		})
		var b strings.Builder
		b.WriteString("(* GENERATED by trans (string_sites.go) from parser/ linter/ interpreter/ tester/; do not edit.\n")
		b.WriteString("   Call sites of .String() on a value whose static type implements ast.Node (go/types),\n")
		b.WriteString("   outside error-message construction: (file, enclosing function, receiver expression). *)\n")
		b.WriteString("From Coq Require Import List String.\nImport ListNotations.\nLocal Open Scope string_scope.\n")
		b.WriteString("Definition sites : list (string * string * string) := [\n")
		first := true
		nerr := 0
		for _, s := range sites {
			if os.Getenv("TRANS_DEBUG") != "" {
				fmt.Fprintf(os.Stderr, "%s\t%s\t%s\t%s\n", s.kind, s.file, s.fn, s.expr)
			}
			if s.kind != "use" {
				nerr++
				continue
			}
			if !first {
				b.WriteString(";\n")
			}
			first = false
			fmt.Fprintf(&b, "  (%q, %q, %q)", s.file, s.fn, strings.ReplaceAll(s.expr, `"`, "'"))
		}
		b.WriteString("\n].\n")
		fmt.Fprintf(&b, "Definition sites_in_error_messages : nat := %d.\n", nerr)
		fmt.Fprintf(&b, "Definition packages_scanned : nat := %d.\n", len(paths))
		return b.String(), nil
	})
}
