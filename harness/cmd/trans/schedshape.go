package main

import (
	"fmt"
	"go/ast"
	"go/token"
	"os"
	"path/filepath"
	"sort"
	"strings"
)

// Gen/SchedShape.v (C18): shape facts read off the Go AST
//   interpreter/handler.go  (*Interpreter).ServeHTTP: `i.lock.Lock()` directly followed by
//     `defer i.lock.Unlock()`; which fields of the interpreter are touched before the lock (other than
//     lock and Debugger); no other Lock/Unlock call; no `go` statement.
//   linter/linter.go        (*Linter).Error starts with `l.<m>.Lock(); defer l.<m>.Unlock()` where <m> is a
//     sync.Mutex field of Linter; which functions of package linter assign to `.Errors` of a Linter
//     receiver outside Error.

func recvName(fd *ast.FuncDecl) string {
	if fd.Recv == nil || len(fd.Recv.List) == 0 || len(fd.Recv.List[0].Names) == 0 {
		return ""
	}
	return fd.Recv.List[0].Names[0].Name
}

func recvType(fd *ast.FuncDecl) string {
	if fd.Recv == nil || len(fd.Recv.List) == 0 {
		return ""
	}
	t := fd.Recv.List[0].Type
	if st, ok := t.(*ast.StarExpr); ok {
		t = st.X
	}
	if id, ok := t.(*ast.Ident); ok {
		return id.Name
	}
	return ""
}

func findMethod(f *ast.File, typ, name string) *ast.FuncDecl {
	for _, d := range f.Decls {
		if fd, ok := d.(*ast.FuncDecl); ok && fd.Name.Name == name && recvType(fd) == typ {
			return fd
		}
	}
	return nil
}

// lockCall matches `<recv>.<field>.<method>()` and returns field
func lockCall(e ast.Expr, recv, method string) (string, bool) {
	ce, ok := e.(*ast.CallExpr)
	if !ok || len(ce.Args) != 0 {
		return "", false
	}
	se, ok := ce.Fun.(*ast.SelectorExpr)
	if !ok || se.Sel.Name != method {
		return "", false
	}
	in, ok := se.X.(*ast.SelectorExpr)
	if !ok {
		return "", false
	}
	if id, ok := in.X.(*ast.Ident); !ok || id.Name != recv {
		return "", false
	}
	return in.Sel.Name, true
}

func coqStrings(xs []string) string {
	qs := make([]string, len(xs))
	for i, x := range xs {
		qs[i] = `"` + x + `"`
	}
	return "[" + strings.Join(qs, "; ") + "]"
}

// rootIdent returns the identifier an assignable expression is rooted in (x, x.f, x[i], *x ...)
func rootIdent(e ast.Expr) *ast.Ident {
	for {
		switch t := e.(type) {
		case *ast.Ident:
			return t
		case *ast.SelectorExpr:
			e = t.X
		case *ast.IndexExpr:
			e = t.X
		case *ast.StarExpr:
			e = t.X
		case *ast.ParenExpr:
			e = t.X
		default:
			return nil
		}
	}
}

// writtenGlobals lists "<dir>:<var>@<func>" for every package-level var under root that is assigned
// (=, op=, ++/--, through a field / index) inside a function other than init. go/parser resolves
// identifiers within a file, so a local that shadows the global is not counted.
func writtenGlobals(repo, root string) ([]string, error) {
	byDir := map[string][]*ast.File{}
	err := filepath.Walk(filepath.Join(repo, root), func(p string, info os.FileInfo, err error) error {
		if err != nil || info.IsDir() || !strings.HasSuffix(p, ".go") || strings.HasSuffix(p, "_test.go") {
			return err
		}
		src, err := os.ReadFile(p)
		if err != nil {
			return err
		}
		if strings.HasPrefix(string(src), "//go:build verif") {
			return nil
		}
		rel, _ := filepath.Rel(repo, p)
		_, f, err := parseFile(repo, rel)
		if err != nil {
			return err
		}
		byDir[filepath.Dir(rel)] = append(byDir[filepath.Dir(rel)], f)
		return nil
	})
	if err != nil {
		return nil, err
	}
	var out []string
	for dir, files := range byDir {
		globals := map[string]bool{}
		for _, f := range files {
			for _, d := range f.Decls {
				if gd, ok := d.(*ast.GenDecl); ok && gd.Tok == token.VAR {
					for _, sp := range gd.Specs {
						for _, nm := range sp.(*ast.ValueSpec).Names {
							if nm.Name != "_" {
								globals[nm.Name] = true
							}
						}
					}
				}
			}
		}
		for _, f := range files {
			for _, d := range f.Decls {
				fn, ok := d.(*ast.FuncDecl)
				if !ok || fn.Body == nil || (fn.Recv == nil && fn.Name.Name == "init") {
					continue
				}
				seen := map[string]bool{}
				note := func(e ast.Expr) {
					id := rootIdent(e)
					if id == nil || !globals[id.Name] || seen[id.Name] {
						return
					}
					// id.Obj is the file-local resolution: a package-level var resolves to a ValueSpec of a
					// GenDecl at file scope or stays unresolved (declared in another file of the package)
					if id.Obj != nil {
						if vs, ok := id.Obj.Decl.(*ast.ValueSpec); ok {
							top := false
							for _, dd := range f.Decls {
								if gd, ok := dd.(*ast.GenDecl); ok {
									for _, sp := range gd.Specs {
										if sp == ast.Spec(vs) {
											top = true
										}
									}
								}
							}
							if !top {
								return
							}
						} else {
							return
						}
					}
					seen[id.Name] = true
					out = append(out, dir+":"+id.Name+"@"+fn.Name.Name)
				}
				ast.Inspect(fn.Body, func(n ast.Node) bool {
					switch t := n.(type) {
					case *ast.AssignStmt:
						if t.Tok != token.DEFINE {
							for _, l := range t.Lhs {
								note(l)
							}
						}
					case *ast.IncDecStmt:
						note(t.X)
					}
					return true
				})
			}
		}
	}
	sort.Strings(out)
	return out, nil
}

func init() {
	register("SchedShape.v", func(repo string) (string, error) {
		var b strings.Builder
		b.WriteString("(* GENERATED by trans from interpreter/handler.go and linter/*.go; do not edit *)\n")
		b.WriteString("From Coq Require Import String List NArith.\nImport ListNotations.\nLocal Open Scope string_scope.\n")

		// ---- ServeHTTP
		_, f, err := parseFile(repo, "interpreter/handler.go")
		if err != nil {
			return "", err
		}
		fd := findMethod(f, "Interpreter", "ServeHTTP")
		if fd == nil {
			return "", fmt.Errorf("(*Interpreter).ServeHTTP not found")
		}
		recv := recvName(fd)
		lockIdx, lockField := -1, ""
		for k, st := range fd.Body.List {
			if es, ok := st.(*ast.ExprStmt); ok {
				if fld, ok := lockCall(es.X, recv, "Lock"); ok {
					lockIdx, lockField = k, fld
					break
				}
			}
		}
		shape := false
		if lockIdx >= 0 && lockIdx+1 < len(fd.Body.List) {
			if ds, ok := fd.Body.List[lockIdx+1].(*ast.DeferStmt); ok {
				if fld, ok := lockCall(ds.Call, recv, "Unlock"); ok && fld == lockField {
					shape = true
				}
			}
		}
		before := map[string]bool{}
		if lockIdx >= 0 {
			for _, st := range fd.Body.List[:lockIdx] {
				ast.Inspect(st, func(n ast.Node) bool {
					if se, ok := n.(*ast.SelectorExpr); ok {
						if id, ok := se.X.(*ast.Ident); ok && id.Name == recv && se.Sel.Name != "Debugger" && se.Sel.Name != lockField {
							before[se.Sel.Name] = true
						}
					}
					return true
				})
			}
		}
		var beforeL []string
		for k := range before {
			beforeL = append(beforeL, k)
		}
		sort.Strings(beforeL)
		locks, unlocks, gos := 0, 0, 0
		deferredUnlocks := 0
		ast.Inspect(fd.Body, func(n ast.Node) bool {
			switch t := n.(type) {
			case *ast.GoStmt:
				gos++
			case *ast.DeferStmt:
				if _, ok := lockCall(t.Call, recv, "Unlock"); ok {
					deferredUnlocks++
				}
			case *ast.CallExpr:
				if _, ok := lockCall(t, recv, "Lock"); ok {
					locks++
				}
				if _, ok := lockCall(t, recv, "Unlock"); ok {
					unlocks++
				}
			}
			return true
		})
		fmt.Fprintf(&b, "Definition servehttp_lock_then_defer_unlock : bool := %v.\n", shape)
		fmt.Fprintf(&b, "Definition servehttp_state_before_lock : list string := %s.\n", coqStrings(beforeL))
		fmt.Fprintf(&b, "Definition servehttp_unlock_only_deferred : bool := %v.\n", locks == 1 && unlocks == 1 && deferredUnlocks == 1)
		fmt.Fprintf(&b, "Definition servehttp_no_go_stmt : bool := %v.\n", gos == 0)

		// the interpreter's mutex is handled by ServeHTTP only: Lock/Unlock calls on <recv>.<lockField> in any other
		// function of package interpreter (files guarded by the verif build tag are hook files and not counted)
		var lockElsewhere []string
		ients, err := os.ReadDir(filepath.Join(repo, "interpreter"))
		if err != nil {
			return "", err
		}
		for _, e := range ients {
			if e.IsDir() || !strings.HasSuffix(e.Name(), ".go") || strings.HasSuffix(e.Name(), "_test.go") {
				continue
			}
			src, err := os.ReadFile(filepath.Join(repo, "interpreter", e.Name()))
			if err != nil {
				return "", err
			}
			if strings.HasPrefix(string(src), "//go:build verif") {
				continue
			}
			_, pf, err := parseFile(repo, filepath.Join("interpreter", e.Name()))
			if err != nil {
				return "", err
			}
			for _, d := range pf.Decls {
				fn, ok := d.(*ast.FuncDecl)
				if !ok || fn.Body == nil || recvType(fn) != "Interpreter" || fn.Name.Name == "ServeHTTP" {
					continue
				}
				rn := recvName(fn)
				ast.Inspect(fn.Body, func(n ast.Node) bool {
					if ce, ok := n.(*ast.CallExpr); ok {
						for _, m := range []string{"Lock", "Unlock", "TryLock"} {
							if fld, ok := lockCall(ce, rn, m); ok && fld == lockField {
								lockElsewhere = append(lockElsewhere, e.Name()+":"+fn.Name.Name+":"+m)
							}
						}
					}
					return true
				})
			}
		}
		sort.Strings(lockElsewhere)
		fmt.Fprintf(&b, "Definition interpreter_lock_used_outside_servehttp : list string := %s.\n", coqStrings(lockElsewhere))

		// ---- (*Linter).Error
		_, lf, err := parseFile(repo, "linter/linter.go")
		if err != nil {
			return "", err
		}
		mutexFields := map[string]bool{}
		ast.Inspect(lf, func(n ast.Node) bool {
			ts, ok := n.(*ast.TypeSpec)
			if !ok || ts.Name.Name != "Linter" {
				return true
			}
			if stt, ok := ts.Type.(*ast.StructType); ok {
				for _, fl := range stt.Fields.List {
					if se, ok := fl.Type.(*ast.SelectorExpr); ok && se.Sel.Name == "Mutex" {
						if id, ok := se.X.(*ast.Ident); ok && id.Name == "sync" {
							for _, nm := range fl.Names {
								mutexFields[nm.Name] = true
							}
						}
					}
				}
			}
			return false
		})
		ed := findMethod(lf, "Linter", "Error")
		if ed == nil {
			return "", fmt.Errorf("(*Linter).Error not found")
		}
		// locksFirst: the method body starts with `<recv>.<mutex>.Lock(); defer <recv>.<mutex>.Unlock()`
		locksFirst := func(fn *ast.FuncDecl) bool {
			r := recvName(fn)
			if fn.Body == nil || len(fn.Body.List) < 2 {
				return false
			}
			es, ok := fn.Body.List[0].(*ast.ExprStmt)
			if !ok {
				return false
			}
			fld, ok := lockCall(es.X, r, "Lock")
			if !ok || !mutexFields[fld] {
				return false
			}
			ds, ok := fn.Body.List[1].(*ast.DeferStmt)
			if !ok {
				return false
			}
			f2, ok := lockCall(ds.Call, r, "Unlock")
			return ok && f2 == fld
		}
		errLocked := locksFirst(ed)
		fmt.Fprintf(&b, "Definition linter_error_locks_first : bool := %v.\n", errLocked)
		// writers of <recv>.Errors in package linter other than Error that do NOT hold the mutex the way Error does
		// (a method that starts with Lock(); defer Unlock() on the same mutex field is as good as Error)
		var outside []string
		ents, err := os.ReadDir(filepath.Join(repo, "linter"))
		if err != nil {
			return "", err
		}
		for _, e := range ents {
			if e.IsDir() || !strings.HasSuffix(e.Name(), ".go") || strings.HasSuffix(e.Name(), "_test.go") {
				continue
			}
			_, pf, err := parseFile(repo, filepath.Join("linter", e.Name()))
			if err != nil {
				return "", err
			}
			for _, d := range pf.Decls {
				fn, ok := d.(*ast.FuncDecl)
				if !ok || fn.Body == nil || (recvType(fn) == "Linter" && fn.Name.Name == "Error") {
					continue
				}
				if recvType(fn) == "Linter" && locksFirst(fn) {
					continue
				}
				ast.Inspect(fn.Body, func(n ast.Node) bool {
					as, ok := n.(*ast.AssignStmt)
					if !ok {
						return true
					}
					for _, lhs := range as.Lhs {
						if se, ok := lhs.(*ast.SelectorExpr); ok && se.Sel.Name == "Errors" && recvType(fn) == "Linter" {
							if id, ok := se.X.(*ast.Ident); ok && id.Name == recvName(fn) && as.Tok != token.DEFINE {
								outside = append(outside, e.Name()+":"+fn.Name.Name)
							}
						}
					}
					return true
				})
			}
		}
		sort.Strings(outside)
		fmt.Fprintf(&b, "Definition linter_errors_appended_outside_error : list string := %s.\n", coqStrings(outside))

		// package-level variables of interpreter/..., ast, lexer, parser, token, resolver (what ServeHTTP runs) that are assigned inside a function other than init
		// (state shared by several Interpreter values in one process, outside any interpreter's mutex)
		var globals []string
		for _, root := range []string{"interpreter", "ast", "lexer", "parser", "token", "resolver"} {
			g, err := writtenGlobals(repo, root)
			if err != nil {
				return "", err
			}
			globals = append(globals, g...)
		}
		fmt.Fprintf(&b, "Definition globals_written_after_init : list string := %s.\n", coqStrings(globals))
		// customLint: the goroutines fill results[idx] only; (*Linter).Error is not called inside a go statement
		_, clf, err := parseFile(repo, "linter/custom_linter.go")
		if err != nil {
			return "", err
		}
		errorInGo := false
		if cl := findMethod(clf, "Linter", "customLint"); cl != nil {
			ast.Inspect(cl.Body, func(n ast.Node) bool {
				gs, ok := n.(*ast.GoStmt)
				if !ok {
					return true
				}
				ast.Inspect(gs, func(m ast.Node) bool {
					if ce, ok := m.(*ast.CallExpr); ok {
						if se, ok := ce.Fun.(*ast.SelectorExpr); ok && se.Sel.Name == "Error" {
							if id, ok := se.X.(*ast.Ident); ok && id.Name == recvName(cl) {
								errorInGo = true
							}
						}
					}
					return true
				})
				return true
			})
		} else {
			return "", fmt.Errorf("(*Linter).customLint not found")
		}
		fmt.Fprintf(&b, "Definition customlint_goroutines_call_error : bool := %v.\n", errorInGo)

		// the per-plugin timeout of customLint: gocontext.WithTimeout(c, <n>*time.Second)
		_, cf, err := parseFile(repo, "linter/custom_linter.go")
		if err != nil {
			return "", err
		}
		timeoutMs := int64(-1)
		ast.Inspect(cf, func(n ast.Node) bool {
			ce, ok := n.(*ast.CallExpr)
			if !ok || len(ce.Args) != 2 {
				return true
			}
			se, ok := ce.Fun.(*ast.SelectorExpr)
			if !ok || se.Sel.Name != "WithTimeout" {
				return true
			}
			if be, ok := ce.Args[1].(*ast.BinaryExpr); ok && be.Op == token.MUL {
				lit, unit := be.X, be.Y
				if _, isLit := lit.(*ast.BasicLit); !isLit {
					lit, unit = be.Y, be.X
				}
				bl, ok1 := lit.(*ast.BasicLit)
				us, ok2 := unit.(*ast.SelectorExpr)
				if ok1 && ok2 && bl.Kind == token.INT {
					var v int64
					fmt.Sscan(bl.Value, &v)
					switch us.Sel.Name {
					case "Second":
						timeoutMs = v * 1000
					case "Millisecond":
						timeoutMs = v
					case "Minute":
						timeoutMs = v * 60000
					}
				}
			}
			return true
		})
		if timeoutMs <= 0 {
			return "", fmt.Errorf("customLint: per-plugin timeout (WithTimeout(c, n*time.Second)) not found")
		}
		fmt.Fprintf(&b, "Definition plugin_timeout_ms : N := %d%%N.\n", timeoutMs)
		return b.String(), nil
	})
}
