package main

import (
	"fmt"
	"go/ast"
	"go/token"
	"sort"
	"strings"
)

// Gen/AssignTable.v : which (operator, left type, right type) cells interpreter/assign/*.go admits, and for
// which of them a literal right operand is refused by an `if right.IsLiteral() { return error }` guard at the
// head of the case - read from the nested type switches of Assign, Addition, Subtraction, Multiplication,
// Division, Remainder and from the `left.Type() != X || right.Type() != Y` guards of the bitwise / shift /
// rotate / logical functions.  Operators and types are numbered as in Model/Assign.v all_aops and Model/Val.v vtype.

var atOps = []struct{ fn, file string }{
	{"Assign", "assign.go"}, {"Addition", "addition.go"}, {"Subtraction", "subtraction.go"}, {"Multiplication", "multiplication.go"},
	{"Division", "division.go"}, {"Remainder", "remainder.go"}, {"BitwiseOR", "bitwise.go"}, {"BitwiseAND", "bitwise.go"},
	{"BitwiseXOR", "bitwise.go"}, {"LeftShift", "bitshift.go"}, {"RightShift", "bitshift.go"}, {"LeftRotate", "bitrotate.go"},
	{"RightRotate", "bitrotate.go"}, {"LogicalOR", "logical.go"}, {"LogicalAND", "logical.go"},
}

var atTypes = []string{"IntegerType", "FloatType", "StringType", "BooleanType", "RTimeType", "TimeType", "IpType", "BackendType", "AclType"}

func atTypeIndex(e ast.Expr) int {
	if se, ok := e.(*ast.SelectorExpr); ok {
		for i, t := range atTypes {
			if se.Sel.Name == t {
				return i
			}
		}
	}
	return -1
}

func atIsTypeSwitchOn(s *ast.SwitchStmt, who string) bool {
	return s.Tag != nil && exprText(s.Tag) == who+".Type()"
}

// does the case body begin with  if right.IsLiteral() { return ... }  ?
func atLiteralForbidden(body []ast.Stmt) bool {
	for _, st := range body {
		if is, ok := st.(*ast.IfStmt); ok && exprText(is.Cond) == "right.IsLiteral()" {
			for _, b := range is.Body.List {
				if _, ok := b.(*ast.ReturnStmt); ok {
					return true
				}
			}
		}
		if _, ok := st.(*ast.AssignStmt); ok {
			continue // rv := value.Unwrap...
		}
	}
	return false
}

type atRow struct {
	op, l, r int
	lit      bool
}

func init() {
	register("AssignTable.v", func(repo string) (string, error) {
		var rows []atRow
		skipped := 0
		for opIdx, o := range atOps {
			_, f, err := parseFile(repo, "interpreter/assign/"+o.file)
			if err != nil {
				return "", err
			}
			var fn *ast.FuncDecl
			for _, d := range f.Decls {
				if fd, ok := d.(*ast.FuncDecl); ok && fd.Name.Name == o.fn {
					fn = fd
				}
			}
			if fn == nil {
				return "", fmt.Errorf("function %s not found in %s", o.fn, o.file)
			}
			found := false
			for _, st := range fn.Body.List {
				switch t := st.(type) {
				case *ast.SwitchStmt:
					if !atIsTypeSwitchOn(t, "left") {
						continue
					}
					found = true
					for _, c := range t.Body.List {
						cc := c.(*ast.CaseClause)
						for _, le := range cc.List {
							l := atTypeIndex(le)
							var inner *ast.SwitchStmt
							for _, b := range cc.Body {
								if sw, ok := b.(*ast.SwitchStmt); ok && atIsTypeSwitchOn(sw, "right") {
									inner = sw
								}
							}
							if inner == nil {
								// no switch on the right type: every right type is admitted (STRING += anything)
								if l >= 0 && len(cc.List) > 0 {
									for r := range atTypes {
										rows = append(rows, atRow{opIdx, l, r, false})
									}
								}
								continue
							}
							for _, ic := range inner.Body.List {
								icc := ic.(*ast.CaseClause)
								for _, re := range icc.List {
									r := atTypeIndex(re)
									if l < 0 || r < 0 {
										skipped++
										continue
									}
									rows = append(rows, atRow{opIdx, l, r, atLiteralForbidden(icc.Body)})
								}
							}
						}
					}
				case *ast.IfStmt:
					// if left.Type() != value.XType || right.Type() != value.YType { return error }
					be, ok := t.Cond.(*ast.BinaryExpr)
					if !ok || be.Op != token.LOR {
						continue
					}
					lb, ok1 := be.X.(*ast.BinaryExpr)
					rb, ok2 := be.Y.(*ast.BinaryExpr)
					if ok1 && ok2 && lb.Op == token.NEQ && rb.Op == token.NEQ && exprText(lb.X) == "left.Type()" && exprText(rb.X) == "right.Type()" {
						l, r := atTypeIndex(lb.Y), atTypeIndex(rb.Y)
						if l >= 0 && r >= 0 {
							rows = append(rows, atRow{opIdx, l, r, false})
							found = true
						}
					}
				}
			}
			if !found {
				return "", fmt.Errorf("no type dispatch recognised in %s", o.fn)
			}
		}
		sort.Slice(rows, func(i, j int) bool {
			a, b := rows[i], rows[j]
			if a.op != b.op {
				return a.op < b.op
			}
			if a.l != b.l {
				return a.l < b.l
			}
			return a.r < b.r
		})
		var b strings.Builder
		b.WriteString("(* GENERATED from interpreter/assign/*.go by trans; do not edit *)\nFrom Coq Require Import List.\nImport ListNotations.\n")
		b.WriteString("(* (operator number, left type number, right type number, literal right operand refused) *)\n")
		b.WriteString("Definition assign_admit : list (nat * nat * nat * bool) := [\n")
		for i, r := range rows {
			sep := ";"
			if i == len(rows)-1 {
				sep = ""
			}
			fmt.Fprintf(&b, "  (%d, %d, %d, %v)%s\n", r.op, r.l, r.r, r.lit, sep)
		}
		b.WriteString("].\n")
		fmt.Fprintf(&b, "Definition assign_admit_skipped_types : nat := %d.  (* cells with a type outside Model/Val.v (REGEX) *)\n", skipped)
		return b.String(), nil
	})
}
