package main

// C01: the real lexer, the parser's token pump (ReadPeek through New/NextToken/PeekToken) and the
// three parser entry points, with a direct oracle that is independent of the Coq model:
// every token / *ParseError position is checked against the raw bytes of the source.
//
//	lex   <hex>          -> "<oracle> | (TYPE "hexlit" line col offset) ..."      tokens up to and including the first EOF
//	pump  <hex>          -> "(m (TYPE "hexlit" line col offset) nest prevEmpty ((c "hexlit" line col lf prevEmpty) ...)) ..."
//	parse <mode> <hex>   -> "ok" | "perr <oracle> (TYPE "hexlit" line col offset)" | "plain "hexmsg""      mode: vcl|snippet|auto
//
// <oracle> is "good" or "bad:<reason>".

import (
	"fmt"
	"strings"

	"github.com/pkg/errors"
	"github.com/ysugimoto/falco/v2/ast"
	"github.com/ysugimoto/falco/v2/lexer"
	"github.com/ysugimoto/falco/v2/parser"
	"github.com/ysugimoto/falco/v2/token"
)

func init() {
	register("lex", lexHandler)
	register("pump", pumpHandler)
	register("parse", parseHandler)
	// GetLine / LineCount after lexing to EOF: what the CLI prints under a located diagnostic.
	// reply: "good <LineCount>" or "bad:<reason>"; oracle on raw bytes: GetLine(k) is the k-th line of the source
	// (as Go decodes it, without its line feed), for every line the lexer went through (a NUL byte ends the input and is the last character read).
	register("getline", func(args string) string {
		src, err := unhx(strings.TrimSpace(args))
		if err != nil {
			return "badreq"
		}
		text := string(src)
		if i := strings.IndexByte(text, 0); i >= 0 {
			text = text[:i+1] // the lexer reads the NUL byte that ends the input: it is part of the last line
		}
		l := lexer.NewFromString(string(src))
		for n := 0; n < 4*len(src)+16; n++ {
			if l.NextToken().Type == token.EOF {
				break
			}
		}
		want := strings.Split(string([]rune(text)), "\n")
		if len(want) > 0 && want[len(want)-1] == "" && len(want) > 1 {
			want = want[:len(want)-1] // a final line feed does not open another line
		}
		if l.LineCount() != len(want) {
			return fmt.Sprintf("bad:LineCount %d, the source has %d lines", l.LineCount(), len(want))
		}
		for k := 1; k <= len(want); k++ {
			got, ok := l.GetLine(k)
			if !ok || got != want[k-1] {
				return fmt.Sprintf("bad:GetLine(%d) = %q, the source line is %q", k, got, want[k-1])
			}
		}
		if _, ok := l.GetLine(len(want) + 1); ok {
			return "bad:GetLine beyond the last line succeeds"
		}
		return fmt.Sprintf("good %d", len(want))
	})
	// the strconv.ParseFloat verdicts the parser model needs as its oracle (floatOracle and
	// significant are C02's, harness/cmd/implrun/parse.go): "hex=0/1,..." or "-"
	register("floats", func(args string) string {
		src, err := unhx(strings.TrimSpace(args))
		if err != nil {
			return "badreq"
		}
		if o := floatOracle(significant(string(src))); o != "" {
			return o
		}
		return "-"
	})
}

func tokSx(t token.Token) string {
	ty := string(t.Type)
	if ty == "" {
		ty = "<empty>"
	}
	return fmt.Sprintf("(%s %s %d %d %d)", ty, hx(t.Literal), t.Line, t.Position, t.Offset)
}

// ---- position table computed from the raw bytes only (Go's own rune decoding of a string) ----

type srcmap struct {
	runes []rune
	line  []int // 1-based line of rune i
	col   []int // 1-based rune column of rune i
	at    map[[2]int]int
	eofL  int
	eofC  int
}

func newSrcmap(src []byte) *srcmap {
	m := &srcmap{runes: []rune(string(src)), at: map[[2]int]int{}}
	l, c := 1, 1
	m.eofL, m.eofC = 1, 1
	for i, r := range m.runes {
		m.line = append(m.line, l)
		m.col = append(m.col, c)
		m.at[[2]int{l, c}] = i
		m.eofL, m.eofC = l, c+1 // one past the last character, on that character's line
		if r == '\n' {
			l, c = l+1, 1
		} else {
			c++
		}
	}
	return m
}

func (m *srcmap) startsWith(i int, form []rune) bool {
	if i+len(form) > len(m.runes) {
		return false
	}
	for k, r := range form {
		if m.runes[i+k] != r {
			return false
		}
	}
	return true
}

// located: does (line, col) lie inside the input and does the text there start with the surface
// form of the token?  prevLong tells whether the token is the body of a long string.
func (m *srcmap) located(t token.Token, longBody bool) string {
	if t.Type == "" {
		return "token with empty type"
	}
	if t.Type == token.EOF {
		if t.Line == m.eofL && t.Position == m.eofC {
			return ""
		}
		if i, ok := m.at[[2]int{t.Line, t.Position}]; ok && m.runes[i] == 0 {
			return "" // a NUL byte ends the input
		}
		return fmt.Sprintf("EOF token at %d:%d, end of input is %d:%d", t.Line, t.Position, m.eofL, m.eofC)
	}
	i, ok := m.at[[2]int{t.Line, t.Position}]
	if !ok {
		if t.Type == token.CLOSE_LONG_STRING && t.Line == m.eofL && t.Position == m.eofC {
			return "" // unterminated long string: the closing token sits at the end of input
		}
		return fmt.Sprintf("%s token position %d:%d is outside the input", t.Type, t.Line, t.Position)
	}
	lit := []rune(t.Literal)
	var form []rune
	switch t.Type {
	case token.STRING:
		form = append([]rune{'"'}, lit...)
	case token.OPEN_LONG_STRING:
		form = append(append([]rune{'{'}, lit...), '"')
	case token.CLOSE_LONG_STRING:
		// terminated: the token sits on the closing brace, preceded by `"` + delimiter;
		// unterminated (input ended or NUL): nothing to designate
		if m.runes[i] == '}' {
			back := append(append([]rune{'"'}, lit...), '}')
			if i+1-len(back) < 0 || !m.startsWith(i+1-len(back), back) {
				return fmt.Sprintf("CLOSE_LONG_STRING at %d:%d is not preceded by its delimiter", t.Line, t.Position)
			}
			return ""
		}
		if m.runes[i] == 0 || m.runes[i] == '"' {
			return ""
		}
		return fmt.Sprintf("CLOSE_LONG_STRING at %d:%d designates %q", t.Line, t.Position, string(m.runes[i]))
	case token.LF:
		form = []rune{'\n'}
	default:
		form = lit
	}
	_ = longBody
	if len(form) == 0 {
		return fmt.Sprintf("%s token with empty surface form", t.Type)
	}
	if !m.startsWith(i, form) {
		return fmt.Sprintf("%s token %q at %d:%d does not designate its text", t.Type, t.Literal, t.Line, t.Position)
	}
	return ""
}

func lexHandler(args string) string {
	src, err := unhx(strings.TrimSpace(args))
	if err != nil {
		return "badreq"
	}
	m := newSrcmap(src)
	l := lexer.NewFromString(string(src))
	var out []string
	bad := ""
	limit := 4*len(src) + 16
	for n := 0; ; n++ {
		if n > limit {
			return fmt.Sprintf("bad:no EOF after %d tokens | %s", n, strings.Join(out[:8], " "))
		}
		t := l.NextToken()
		out = append(out, tokSx(t))
		if why := m.located(t, false); why != "" && bad == "" {
			bad = why
		}
		if t.Type == token.EOF {
			break
		}
		if t.Type == "" && n > len(src)+8 {
			break
		}
	}
	// the EOF token is stable: asking again gives the same token
	if bad == "" {
		e1 := out[len(out)-1]
		for k := 0; k < 3; k++ {
			if e := tokSx(l.NextToken()); e != e1 {
				bad = "EOF token changes when read again: " + e1 + " then " + e
				break
			}
		}
	}
	o := "good"
	if bad != "" {
		o = "bad:" + bad
	}
	return o + " | " + strings.Join(out, " ")
}

func metaSx(m *ast.Meta) string {
	var cs []string
	for _, c := range m.Leading {
		cs = append(cs, fmt.Sprintf("(c %s %d %d %s %d)", hx(c.Token.Literal), c.Token.Line, c.Token.Position, b01(c.PrefixedLineFeed), c.PreviousEmptyLines))
	}
	return fmt.Sprintf("(m %s %d %d %s)", tokSx(m.Token), m.Nest, m.PreviousEmptyLines, lst(cs))
}

func pumpHandler(args string) string {
	src, err := unhx(strings.TrimSpace(args))
	if err != nil {
		return "badreq"
	}
	p := parser.New(lexer.NewFromString(string(src)))
	var out []string
	cur := p.CurToken()
	out = append(out, metaSx(cur))
	if cur.Token.Type == token.EOF {
		return strings.Join(out, " ")
	}
	limit := 4*len(src) + 16
	for n := 0; ; n++ {
		if n > limit {
			return "noeof " + strings.Join(out[:4], " ")
		}
		m := p.PeekToken()
		out = append(out, metaSx(m))
		if m.Token.Type == token.EOF {
			break
		}
		p.NextToken()
	}
	return strings.Join(out, " ")
}

func parseHandler(args string) string {
	mode, h, _ := strings.Cut(strings.TrimSpace(args), " ")
	src, err := unhx(strings.TrimSpace(h))
	if err != nil {
		return "badreq"
	}
	p := parser.New(lexer.NewFromString(string(src)))
	var perr error
	switch mode {
	case "vcl":
		_, perr = p.ParseVCL()
	case "snippet":
		_, perr = p.ParseSnippetVCL()
	case "auto":
		_, perr = p.ParseVCLOrSnippet()
	default:
		return "badreq mode"
	}
	if perr == nil {
		return "ok"
	}
	pe, ok := errors.Cause(perr).(*parser.ParseError)
	if !ok || pe == nil {
		return "plain " + hx(perr.Error())
	}
	o := "good"
	if why := newSrcmap(src).located(pe.Token, false); why != "" {
		o = "bad:" + why
	}
	// the rendering of the diagnostic carries the token's own line and column
	if msg := perr.Error(); o == "good" && (!strings.HasPrefix(msg, "Parse Error: ") ||
		!strings.HasSuffix(msg, fmt.Sprintf(", line: %d, position: %d", pe.Token.Line, pe.Token.Position)) ||
		pe.ErrorToken() != pe.Token) {
		o = "bad:Error() rendering " + msg + " does not carry the position of the error token"
	}
	return "perr " + strings.ReplaceAll(o, " ", "_") + " " + tokSx(pe.Token)
}
