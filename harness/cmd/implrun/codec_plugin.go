package main

import (
	"bytes"
	"fmt"
	"io"
	"os"
	"reflect"
	"sort"
	"strings"

	"github.com/ysugimoto/falco/v2/ast"
	"github.com/ysugimoto/falco/v2/ast/codec"
	"github.com/ysugimoto/falco/v2/config"
	"github.com/ysugimoto/falco/v2/lexer"
	"github.com/ysugimoto/falco/v2/linter"
	lcontext "github.com/ysugimoto/falco/v2/linter/context"
	"github.com/ysugimoto/falco/v2/parser"
	"github.com/ysugimoto/falco/v2/plugin"
)

// The plugin path of C19: linter/custom_linter.go sends codec.NewEncoder().Encode(stmt) (ONE statement
// + FIN) to the plugin process, which reads it with plugin.ReadLinterRequest[T].

type plugReader struct {
	name string
	fn   func([]byte) string
}

// ReadLinterRequest[T] projected:
//   "ok <T> <sexp>" | "decode" | "empty" | "type:<Name>" (the three LinterRequestError cases) | anything else is reported as is
func readAs[T plugin.LintStatement](name string) plugReader {
	return plugReader{name, func(b []byte) string {
		req, err := plugin.ReadLinterRequest[T](bytes.NewReader(b))
		if err != nil {
			le, ok := err.(*plugin.LinterRequestError)
			if !ok || le == nil {
				return "not-a-LinterRequestError"
			}
			switch {
			case strings.HasPrefix(le.Message, "Failed to decode from input stream"):
				return "decode"
			case le.Message == "Nothing statement from decoded AST":
				return "empty"
			case strings.HasPrefix(le.Message, "Type conversion failed, cannot convert ") && strings.HasSuffix(le.Message, " statement"):
				return "type:" + strings.TrimSuffix(strings.TrimPrefix(le.Message, "Type conversion failed, cannot convert "), " statement")
			}
			return "unexpected-message"
		}
		if req == nil {
			return "nil-request-without-error"
		}
		st, ok := any(req.Statement).(ast.Statement)
		if !ok || st == nil {
			return "request-without-statement"
		}
		return "ok " + name + " " + cxStmt(st)
	}}
}

// plugReaders (one instantiation per member of the plugin.LintStatement union, in the order of the union) is
// generated before the build from plugin/linter.go: codec_plugin_inst.go (lib/pregen_codec.py); the check
// compares the names with the regenerated Gen/CodecPlugin.v lint_statement_types

// every instantiation on the same bytes:  "<ok T sexp ...|none> | rest <distinct other results, sorted>"
func plugAll(b []byte) string {
	var oks []string
	rest := map[string]bool{}
	for _, r := range plugReaders {
		res := r.fn(b)
		if strings.HasPrefix(res, "ok ") {
			oks = append(oks, res)
		} else {
			rest[res] = true
		}
	}
	var rs []string
	for k := range rest {
		rs = append(rs, k)
	}
	sort.Strings(rs)
	head := "none"
	if len(oks) > 0 {
		head = strings.Join(oks, " ")
	}
	return head + " | rest " + strings.Join(rs, ",")
}

// every statement node of a program the linter can be handed (and the containers it visits):
// top level, block bodies, if / else-if / else bodies, switch cases and their bodies, subroutine blocks
func cxWalk(ss []ast.Statement, out *[]ast.Statement) {
	for _, s := range ss {
		cxWalk1(s, out)
	}
}

func cxWalkIf(t *ast.IfStatement, out *[]ast.Statement) {
	if t.Consequence != nil {
		cxWalk1(t.Consequence, out)
	}
	for _, a := range t.Another {
		*out = append(*out, a)
		cxWalkIf(a, out)
	}
	if t.Alternative != nil && t.Alternative.Consequence != nil {
		cxWalk1(t.Alternative.Consequence, out)
	}
}

func cxWalk1(s ast.Statement, out *[]ast.Statement) {
	*out = append(*out, s)
	switch t := s.(type) {
	case *ast.BlockStatement:
		cxWalk(t.Statements, out)
	case *ast.IfStatement:
		cxWalkIf(t, out)
	case *ast.SwitchStatement:
		for _, c := range t.Cases {
			*out = append(*out, c)
			cxWalk(c.Statements, out)
		}
	case *ast.SubroutineDeclaration:
		if t.Block != nil {
			cxWalk1(t.Block, out)
		}
	}
}

// ---- end to end through the real linter: linter.customLint -> exec falco-verifecho -> ReadLinterRequest ----

const echoPrefix = "VERIFECHO "
const echoAnnotation = "// @plugin: verifecho"

// `implrun codecplug-echo` is the plugin process (started by linter/custom_linter.go through the
// script falco-verifecho the check puts on PATH): it reads the request from stdin with every
// instantiation of ReadLinterRequest and answers with one INFO message carrying the aggregated result.
func init() {
	if len(os.Args) > 1 && os.Args[1] == "codecplug-echo" {
		b, err := io.ReadAll(os.Stdin)
		if err != nil {
			os.Exit(3)
		}
		resp := &plugin.LinterResponse{}
		resp.Info(echoPrefix + plugAll(b))
		if err := resp.Write(os.Stdout); err != nil {
			os.Exit(4)
		}
		os.Exit(0)
	}
}

func goTypeName(s ast.Statement) string {
	t := reflect.TypeOf(s)
	if t.Kind() == reflect.Ptr {
		return t.Elem().Name()
	}
	return t.Name()
}

func isLintStatementType(name string) bool {
	for _, r := range plugReaders {
		if r.name == name {
			return true
		}
	}
	return false
}

// what the echo plugin must answer for statement s if the bytes it received are s
func expectedEcho(s ast.Statement) string {
	k := goTypeName(s)
	if isLintStatementType(k) {
		return "ok " + k + " " + cxStmt(s) + " | rest type:" + k
	}
	return "none | rest type:" + k
}

// number of leading comments custom_linter.go reads as a call of falco-verifecho
// (same reading as parseCustomLinterCall: trim " */#" on the left, "@plugin:" prefix, first word = name)
func annotations(m *ast.Meta) int {
	n := 0
	for _, c := range m.Leading {
		l := strings.TrimLeft(c.Value, " */#")
		if !strings.HasPrefix(l, "@plugin:") {
			continue
		}
		w := strings.Split(strings.TrimSpace(strings.TrimPrefix(l, "@plugin:")), " ")
		if w[0] == "verifecho" {
			n++
		}
	}
	return n
}

// e2e <inject|text> <hex source of a complete VCL>
//   inject: every statement node gets the annotation comment appended to its leading comments after parsing
//   text  : the annotations are the ones written in the source
// reply: "e2e calls <n> expected <m> extra <k> <list> missing <list> fails <k> <list> unreadable <list>"
func codecE2E(mode string, src []byte) string {
	dir := os.Getenv("VERIF_PLUGIN_DIR")
	if dir == "" {
		return "badreq VERIF_PLUGIN_DIR not set"
	}
	os.Setenv("PATH", dir) // nolint:errcheck
	vcl, err := parser.New(lexer.NewFromString(string(src), lexer.WithFile("main.vcl"))).ParseVCL()
	if err != nil {
		return "parseerr"
	}
	var all []ast.Statement
	cxWalk(vcl.Statements, &all)
	if mode == "inject" {
		for _, s := range all {
			if m := s.GetMeta(); m != nil && annotations(m) == 0 {
				m.Leading = append(m.Leading, &ast.Comment{Value: echoAnnotation})
			}
		}
	}
	expected := map[string]int{}
	kindOf := map[string]string{}
	total := 0
	for _, s := range all {
		m := s.GetMeta()
		if m == nil {
			continue
		}
		if n := annotations(m); n > 0 {
			e := expectedEcho(s)
			expected[e] += n
			total += n
			kindOf[e] = goTypeName(s)
			if t, ok := s.(*ast.IfStatement); ok && t.Keyword != "if" {
				kindOf[e] = "IfStatement(" + strings.ReplaceAll(t.Keyword, " ", "") + ")"
			}
		}
	}
	l := linter.New(&config.LinterConfig{})
	l.Lint(vcl, lcontext.New())
	calls := 0
	var extra, fails, unreadable []string
	for _, e := range l.Errors {
		switch {
		case strings.HasPrefix(e.Message, echoPrefix):
			calls++
			msg := strings.TrimPrefix(e.Message, echoPrefix)
			if strings.HasPrefix(msg, "none | rest type:") {
				// the linter started a plugin on a statement no instantiation of ReadLinterRequest accepts
				unreadable = append(unreadable, strings.TrimPrefix(msg, "none | rest type:"))
			}
			if expected[msg] > 0 {
				expected[msg]--
			} else {
				extra = append(extra, msg)
			}
		case strings.HasPrefix(e.Message, "Custom linter command"), strings.HasPrefix(e.Message, "Encode error for custom linter"):
			fails = append(fails, strings.ReplaceAll(e.Message, "\n", " "))
		}
	}
	missing := map[string]int{}
	for e, n := range expected {
		if n > 0 {
			missing[kindOf[e]] += n
		}
	}
	var ms []string
	for k, n := range missing {
		ms = append(ms, fmt.Sprintf("%s:%d", k, n))
	}
	sort.Strings(ms)
	clip := func(l []string) string {
		if len(l) > 3 {
			l = l[:3]
		}
		for i := range l {
			if len(l[i]) > 600 {
				l[i] = l[i][:600]
			}
		}
		return "[" + strings.Join(l, " ;; ") + "]"
	}
	sort.Strings(unreadable)
	return fmt.Sprintf("e2e calls %d expected %d extra %d %s missing [%s] fails %d %s unreadable [%s]",
		calls, total, len(extra), clip(extra), strings.Join(ms, " "), len(fails), clip(fails), strings.Join(unreadable, " "))
}

// codecplug command:
//   src1 <vcl|snippet> <hex source> [max]  ->  "n <total statements> || ast <sexp> ; enc <hex>|encerr ; plug <plugAll> || ..."  or "parseerr"
//   plug <hex bytes>                      ->  plugAll
//   readers                               ->  names of the instantiations, in order
//   e2e <inject|text> <hex VCL>           ->  see codecE2E
func init() {
	register("codecplug", func(args string) string {
		f := strings.Fields(args)
		switch {
		case len(f) >= 1 && f[0] == "readers":
			var ns []string
			for _, r := range plugReaders {
				ns = append(ns, r.name)
			}
			return strings.Join(ns, " ")
		case len(f) >= 2 && f[0] == "src1":
			h := ""
			if len(f) > 2 && f[2] != "-" { // "-" = empty source
				h = f[2]
			}
			max := 60
			if len(f) > 3 {
				fmt.Sscanf(f[3], "%d", &max)
			}
			src, err := unhx(h)
			if err != nil {
				return "badreq"
			}
			stmts, err := parseSrc(f[1], src)
			if err != nil {
				return "parseerr"
			}
			var all []ast.Statement
			cxWalk(stmts, &all)
			out := []string{fmt.Sprintf("n %d", len(all))}
			seen := map[string]bool{}
			for _, s := range all {
				if len(out) > max {
					break
				}
				a := cxStmt(s)
				if seen[a] || len(a) > 60000 {
					continue
				}
				seen[a] = true
				bin, err := codec.NewEncoder().Encode(s)
				if err != nil {
					out = append(out, fmt.Sprintf("ast %s ; encerr ; plug -", a))
					continue
				}
				// Encodes of the singleton must be the same bytes (both entry points of the encoder)
				same := "same"
				if b2, err2 := codec.NewEncoder().Encodes([]ast.Statement{s}); err2 != nil || !bytes.Equal(b2, bin) {
					same = "ENCODES-DIFFERS"
				}
				out = append(out, fmt.Sprintf("ast %s ; enc %x ; plug %s ; %s", a, bin, safe(func(string) string { return plugAll(bin) }, ""), same))
			}
			return strings.Join(out, " || ")
		case len(f) == 3 && f[0] == "e2e":
			src, err := unhx(f[2])
			if err != nil {
				return "badreq"
			}
			return codecE2E(f[1], src)
		case len(f) >= 1 && f[0] == "plug":
			h := ""
			if len(f) > 1 {
				h = f[1]
			}
			bin, err := unhx(h)
			if err != nil {
				return "badreq"
			}
			return plugAll(bin)
		}
		return "badreq"
	})
}
