package main

// implrun parse: the real parser (parser.New + ParseVCL / ParseSnippetVCL / ParseVCLOrSnippet /
// ParseExpression) on
//   src  <mode> <hex source>   the real lexer; the reply also carries the significant token stream
//                              (the lexer re-run to EOF and filtered exactly as Parser.ReadPeek does)
//   toks <mode> <tokens>       a given significant token stream served through a slice Tokenizer
// mode: vcl | snippet | auto | expr
// reply:  <tokens> | <float oracle> | <outcome>
//   tokens  = TYPE:hexliteral:offset;...          (without the final EOF)
//   oracle  = hex=0/1,...  strconv.ParseFloat verdicts for the strings a FLOAT / RTIME token can hand to it
//   outcome = ok <sexp> | err <kind> <index of the error token in the stream> | err notoken
// The S-expression is the projection documented in ocaml/parse_main.ml (no positions, no comments).

import (
	"fmt"
	"math"
	"strconv"
	"strings"

	"github.com/pkg/errors"
	"github.com/ysugimoto/falco/v2/ast"
	"github.com/ysugimoto/falco/v2/lexer"
	"github.com/ysugimoto/falco/v2/parser"
	"github.com/ysugimoto/falco/v2/token"
)

// ---------- projection

func pxE(e ast.Expression) string {
	switch t := e.(type) {
	case nil:
		return "(nil)"
	case *ast.Ident:
		return sx("ident", hx(t.Value))
	case *ast.IP:
		return sx("ip", hx(t.Value))
	case *ast.Boolean:
		return sx("bool", b01(t.Value))
	case *ast.Integer:
		return sx("int", strconv.FormatInt(t.Value, 10), hx(t.Token.Literal))
	case *ast.Float:
		// the stored value as IEEE-754 bits: compared by the check with an independent exact conversion of
		// the literal (the model does not carry the value; the check strips the bits before comparing with it)
		return sx("float", hx(t.Token.Literal), fmt.Sprintf("x%016x", math.Float64bits(t.Value)))
	case *ast.RTime:
		return sx("rtime", hx(t.Value))
	case *ast.String:
		return sx("str", hx(t.Value), b01(t.LongString), hx(t.Delimiter), hx(t.Token.Literal), strconv.Itoa(t.Token.Offset))
	case *ast.PrefixExpression:
		return sx("prefix", hx(t.Operator), pxE(t.Right))
	case *ast.GroupedExpression:
		return sx("group", pxE(t.Right))
	case *ast.IfExpression:
		return sx("ifexp", pxE(t.Condition), pxE(t.Consequence), pxE(t.Alternative))
	case *ast.InfixExpression:
		return sx("infix", pxE(t.Left), hx(t.Operator), b01(t.Explicit), pxE(t.Right))
	case *ast.PostfixExpression:
		return sx("postfix", pxE(t.Left), hx(t.Operator))
	case *ast.FunctionCallExpression:
		return sx("call", append([]string{hx(t.Function.Value)}, pxEs(t.Arguments)...)...)
	case *ast.BackendProbeObject:
		return sx("probeobj", pxBProps(t.Values)...)
	case *ast.DirectorProperty:
		return sx("dprop", hx(t.Key.Value), pxE(t.Value))
	case *ast.DirectorBackendObject:
		var ps []string
		for _, v := range t.Values {
			ps = append(ps, pxE(v))
		}
		return sx("dbackend", ps...)
	default:
		return fmt.Sprintf("(unknown-expr %T)", e)
	}
}

func pxEs(es []ast.Expression) []string {
	out := make([]string, 0, len(es))
	for _, e := range es {
		out = append(out, pxE(e))
	}
	return out
}

func pxOpt(e ast.Expression) string {
	if e == nil {
		return "_"
	}
	return pxE(e)
}

func pxBProps(ps []*ast.BackendProperty) []string {
	var out []string
	for _, p := range ps {
		if o, ok := p.Value.(*ast.BackendProbeObject); ok {
			out = append(out, sx("probe", append([]string{hx(p.Key.Value)}, pxBProps(o.Values)...)...))
		} else {
			out = append(out, sx("prop", hx(p.Key.Value), pxE(p.Value)))
		}
	}
	return out
}

func pxSs(ss []ast.Statement) string {
	out := make([]string, 0, len(ss))
	for _, s := range ss {
		out = append(out, pxS(s))
	}
	return lst(out)
}

func pxBlock(b *ast.BlockStatement) string {
	if b == nil {
		return "(nilblock)"
	}
	return pxSs(b.Statements)
}

func pxS(s ast.Statement) string {
	switch t := s.(type) {
	case *ast.SetStatement:
		return sx("set", hx(t.Ident.Value), hx(t.Operator.Operator), pxE(t.Value))
	case *ast.AddStatement:
		return sx("add", hx(t.Ident.Value), hx(t.Operator.Operator), pxE(t.Value))
	case *ast.UnsetStatement:
		return sx("unset", hx(t.Ident.Value))
	case *ast.RemoveStatement:
		return sx("remove", hx(t.Ident.Value))
	case *ast.DeclareStatement:
		return sx("declare", hx(t.Name.Value), hx(t.ValueType.Value), pxOpt(t.Value))
	case *ast.CallStatement:
		return sx("call", append([]string{hx(t.Subroutine.Value)}, pxEs(t.Arguments)...)...)
	case *ast.ErrorStatement:
		return sx("error", pxOpt(t.Code), pxOpt(t.Argument))
	case *ast.EsiStatement:
		return "(esi)"
	case *ast.RestartStatement:
		return "(restart)"
	case *ast.BreakStatement:
		return "(break)"
	case *ast.FallthroughStatement:
		return "(fallthrough)"
	case *ast.ReturnStatement:
		return sx("return", b01(t.HasParenthesis), pxOpt(t.ReturnExpression))
	case *ast.LogStatement:
		return sx("log", pxE(t.Value))
	case *ast.SyntheticStatement:
		return sx("synthetic", pxE(t.Value))
	case *ast.SyntheticBase64Statement:
		return sx("synthetic64", pxE(t.Value))
	case *ast.GotoStatement:
		return sx("goto", hx(t.Destination.Value))
	case *ast.GotoDestinationStatement:
		return sx("gotodest", hx(t.Name.Value))
	case *ast.IncludeStatement:
		return sx("include", pxE(t.Module))
	case *ast.ImportStatement:
		return sx("import", hx(t.Name.Value))
	case *ast.BlockStatement:
		return sx("block", pxSs(t.Statements))
	case *ast.FunctionCallStatement:
		return sx("funcall", append([]string{hx(t.Function.Value)}, pxEs(t.Arguments)...)...)
	case *ast.IfStatement:
		var an []string
		for _, a := range t.Another {
			an = append(an, sx("elif", hx(a.Keyword), pxE(a.Condition), pxBlock(a.Consequence)))
		}
		alt := "_"
		if t.Alternative != nil {
			alt = pxBlock(t.Alternative.Consequence)
		}
		return sx("if", hx(t.Keyword), pxE(t.Condition), pxBlock(t.Consequence), lst(an), alt)
	case *ast.SwitchStatement:
		var cs []string
		for _, c := range t.Cases {
			test := "_"
			if c.Test != nil {
				test = sx("test", hx(c.Test.Operator), pxE(c.Test.Right))
			}
			cs = append(cs, sx("case", test, pxSs(c.Statements), b01(c.Fallthrough)))
		}
		return sx("switch", pxE(t.Control.Expression), lst(cs), strconv.Itoa(t.Default))
	case *ast.AclDeclaration:
		var cs []string
		for _, c := range t.CIDRs {
			mask := "_"
			if c.Mask != nil {
				mask = strconv.FormatInt(c.Mask.Value, 10)
			}
			cs = append(cs, sx("cidr", b01(c.Inverse != nil && c.Inverse.Value), hx(c.IP.Value), mask))
		}
		return sx("acl", append([]string{hx(t.Name.Value)}, cs...)...)
	case *ast.BackendDeclaration:
		return sx("backend", append([]string{hx(t.Name.Value)}, pxBProps(t.Properties)...)...)
	case *ast.DirectorDeclaration:
		return sx("director", append([]string{hx(t.Name.Value), hx(t.DirectorType.Value)}, pxEs(t.Properties)...)...)
	case *ast.TableDeclaration:
		ty := "_"
		if t.ValueType != nil {
			ty = hx(t.ValueType.Value)
		}
		var ps []string
		for _, p := range t.Properties {
			ps = append(ps, sx("tprop", pxE(p.Key), pxE(p.Value), b01(p.HasComma)))
		}
		return sx("table", append([]string{hx(t.Name.Value), ty}, ps...)...)
	case *ast.SubroutineDeclaration:
		var ps []string
		for _, p := range t.Parameters {
			ps = append(ps, sx("param", hx(p.Type.Value), hx(p.Name.Value)))
		}
		ret := "_"
		if t.ReturnType != nil {
			ret = hx(t.ReturnType.Value)
		}
		return sx("sub", hx(t.Name.Value), lst(ps), ret, pxBlock(t.Block))
	case *ast.PenaltyboxDeclaration:
		return sx("penaltybox", hx(t.Name.Value), pxBlock(t.Block))
	case *ast.RatecounterDeclaration:
		return sx("ratecounter", hx(t.Name.Value), pxBlock(t.Block))
	default:
		return fmt.Sprintf("(unknown-stmt %T)", s)
	}
}

// ---------- token streams

// significant: the tokens Parser.ReadPeek lets through (LF, COMMENT, C!/W! dropped; PRAGMA ... ; dropped)
func significant(src string) []token.Token {
	l := lexer.NewFromString(src)
	var out []token.Token
	for {
		t := l.NextToken()
		switch t.Type {
		case token.EOF:
			return out
		case token.LF, token.COMMENT, token.FASTLY_CONTROL:
			continue
		case token.PRAGMA:
			for {
				t = l.NextToken()
				if t.Type == token.SEMICOLON || t.Type == token.EOF {
					break
				}
			}
			if t.Type == token.EOF {
				return out
			}
			continue
		}
		out = append(out, t)
	}
}

type sliceTokenizer struct {
	toks  []token.Token
	i     int
	pulls int // number of NextToken calls (EOF answers included)
}

func (s *sliceTokenizer) eof() token.Token {
	return token.Token{Type: token.EOF, Literal: "", Line: 1, Position: len(s.toks) + 1, File: "#" + strconv.Itoa(len(s.toks))}
}

// the slice tokenizer serves copies whose File field is "#<index>": a ParseError then names the
// index of its token even where the parser rewrote the token's position (ParsePostfixExpression does)
func tagged(ts []token.Token) []token.Token {
	out := make([]token.Token, len(ts))
	for i, t := range ts {
		t.File = "#" + strconv.Itoa(i)
		out[i] = t
	}
	return out
}
func (s *sliceTokenizer) NextToken() token.Token {
	s.pulls++
	if s.i < len(s.toks) {
		t := s.toks[s.i]
		s.i++
		return t
	}
	return s.eof()
}
func (s *sliceTokenizer) PeekToken() token.Token {
	if s.i < len(s.toks) {
		return s.toks[s.i]
	}
	return s.eof()
}
func (s *sliceTokenizer) RegisterCustomTokens(map[string]token.TokenType) {}

func renderToks(ts []token.Token) string {
	parts := make([]string, len(ts))
	for i, t := range ts {
		parts[i] = fmt.Sprintf("%s:%x:%d", string(t.Type), t.Literal, t.Offset)
	}
	return strings.Join(parts, ";")
}

func parseToks(s string) ([]token.Token, error) {
	if s == "" {
		return nil, nil
	}
	var out []token.Token
	for i, p := range strings.Split(s, ";") {
		f := strings.Split(p, ":")
		if len(f) != 3 {
			return nil, fmt.Errorf("bad token %q", p)
		}
		lit, err := unhx(f[1])
		if err != nil {
			return nil, err
		}
		off, err := strconv.Atoi(f[2])
		if err != nil {
			return nil, err
		}
		out = append(out, token.Token{Type: token.TokenType(f[0]), Literal: string(lit), Offset: off, Line: 1, Position: i + 1})
	}
	return out, nil
}

// the strings a FLOAT / RTIME token may hand to strconv.ParseFloat, with the verdict
func floatOracle(ts []token.Token) string {
	seen := map[string]bool{}
	var parts []string
	add := func(s string) {
		if seen[s] {
			return
		}
		seen[s] = true
		_, err := strconv.ParseFloat(s, 64)
		parts = append(parts, fmt.Sprintf("%x=%s", s, b01(err == nil)))
	}
	for _, t := range ts {
		if t.Type != token.FLOAT && t.Type != token.RTIME {
			continue
		}
		l := t.Literal
		add(l)
		add(l + "p0")
		if len(l) >= 1 {
			add(l[:len(l)-1])
		}
		if len(l) >= 2 {
			add(l[:len(l)-2])
		}
	}
	return strings.Join(parts, ",")
}

func errKind(msg string) string {
	switch {
	case strings.HasPrefix(msg, "Missing semicolon"):
		return "missing-semi"
	case strings.HasPrefix(msg, "Missing colon"):
		return "missing-colon"
	case strings.HasPrefix(msg, "Unexpected token"):
		return "unexpected"
	case strings.HasPrefix(msg, "Undefined prefix"):
		return "undefined-prefix"
	case strings.HasPrefix(msg, "Failed type conversion"):
		return "conversion"
	case strings.HasPrefix(msg, "Duplicate case"):
		return "dup-case"
	case strings.HasPrefix(msg, "Multiple default"):
		return "multi-default"
	case strings.HasPrefix(msg, "Final case cannot"):
		return "final-fallthrough"
	case strings.HasPrefix(msg, "Switch must have"):
		return "empty-switch"
	case strings.HasPrefix(msg, "Parenthesis mismatch"):
		return "paren-mismatch"
	case strings.HasPrefix(msg, "Function name must be IDENT"):
		return "fname-not-ident"
	case strings.HasPrefix(msg, "Long String delimiter mismatch"):
		return "delimiter"
	}
	return "escape"
}

// outcome of one parse; for errors also the description of the error token (used to compare the
// real-lexer run with the slice run)
func outcome(mode string, p *parser.Parser, ts []token.Token, st *sliceTokenizer) (string, string) {
	var res string
	var err error
	switch mode {
	case "vcl":
		var v *ast.VCL
		v, err = p.ParseVCL()
		if err == nil {
			res = "0 " + pxSs(v.Statements)
		}
	case "snippet":
		var ss []ast.Statement
		ss, err = p.ParseSnippetVCL()
		if err == nil {
			res = "1 " + pxSs(ss)
		}
	case "auto":
		var v *ast.VCL
		v, err = p.ParseVCLOrSnippet()
		if err == nil {
			res = b01(v.IsSnippet) + " " + pxSs(v.Statements)
		}
	case "expr":
		var e ast.Expression
		e, err = p.ParseExpression(parser.LOWEST)
		if err == nil {
			// the number of tokens left behind the expression: cur is its last token
			// (the parser holds cur and peek: cur is the token pulled two calls ago)
			rest := len(ts) - (st.pulls - 2) - 1
			if rest < 0 {
				rest = 0
			}
			res = fmt.Sprintf("%s %d", pxE(e), rest)
		}
	default:
		return "badmode", ""
	}
	if err == nil {
		return "ok " + res, ""
	}
	pe, ok := errors.Cause(err).(*parser.ParseError)
	if !ok {
		return "err notoken", ""
	}
	desc := fmt.Sprintf("%s %s %q %d %d", errKind(pe.Message), pe.Token.Type, pe.Token.Literal, pe.Token.Line, pe.Token.Position)
	if pe.Token.Type == token.EOF {
		desc = errKind(pe.Message) + " EOF"
	}
	return fmt.Sprintf("err %s %d", errKind(pe.Message), tokIndex(ts, pe.Token)), desc
}

// index of a token in the significant stream (EOF and unknown tokens: len)
func tokIndex(ts []token.Token, t token.Token) int {
	if t.Type == token.EOF {
		return len(ts)
	}
	if strings.HasPrefix(t.File, "#") {
		if i, err := strconv.Atoi(t.File[1:]); err == nil {
			return i
		}
	}
	for i := range ts {
		if ts[i].Line == t.Line && ts[i].Position == t.Position && ts[i].Type == t.Type && ts[i].Literal == t.Literal {
			return i
		}
	}
	return -1
}

func init() {
	register("parsetree", func(args string) string {
		f := strings.SplitN(args, " ", 3)
		if len(f) < 2 {
			return "badreq"
		}
		arg := ""
		if len(f) == 3 {
			arg = f[2]
		}
		switch f[0] {
		case "src":
			b, err := unhx(arg)
			if err != nil {
				return "badreq"
			}
			ts := significant(string(b))
			// the same stream through the slice tokenizer: exact index of an error token, number of
			// tokens an expression leaves unread
			st := &sliceTokenizer{toks: tagged(ts)}
			out, desc := outcome(f[1], parser.New(st), ts, st)
			if f[1] != "expr" {
				// the real path: parser driven by the real lexer; must give the same tree / the same error
				// class on the same token (this also validates the ReadPeek filter of `significant`)
				real, rdesc := outcome(f[1], parser.New(lexer.NewFromString(string(b))), ts, nil)
				if strings.HasPrefix(out, "ok") != strings.HasPrefix(real, "ok") || (strings.HasPrefix(out, "ok") && out != real) || desc != rdesc {
					return "srcmismatch real=" + real + " [" + rdesc + "] slice=" + out + " [" + desc + "]"
				}
			}
			return renderToks(ts) + " | " + floatOracle(ts) + " | " + out
		case "toks":
			ts, err := parseToks(arg)
			if err != nil {
				return "badreq " + err.Error()
			}
			st := &sliceTokenizer{toks: tagged(ts)}
			out, _ := outcome(f[1], parser.New(st), ts, st)
			return renderToks(ts) + " | " + floatOracle(ts) + " | " + out
		}
		return "badreq"
	})
}
