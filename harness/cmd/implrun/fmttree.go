package main

// implrun fmttree (C16): did a rewrite by `fmt --write` keep every declaration and statement?
//
//	fmttree <config-json> <hex original> <hex rewritten>
//	   both texts are parsed the way `falco fmt` parses a file (parser.ParseVCLOrSnippet) and projected
//	   with the C03 tree projection (fmt_ast.go faProgram: declarations, statements, operators,
//	   identifiers, literals; no positions, comments, layout; the documented rewrites of the
//	   configuration applied to the original side)
//	   -> "same <n statements> <snippet 0|1>"
//	    | "diff <n original> <n rewritten> <projection original> <projection rewritten>"
//	    | "orig-perr <msg>" | "new-perr <msg>"
import (
	"fmt"
	"strings"

	"github.com/ysugimoto/falco/v2/lexer"
	"github.com/ysugimoto/falco/v2/parser"
)

func init() {
	register("fmttree", func(args string) string {
		f := strings.SplitN(args, " ", 3)
		if len(f) != 3 {
			return "badreq"
		}
		c, err := parseFmtConf(f[0])
		if err != nil {
			return "badreq config: " + err.Error()
		}
		dec := func(h string) (string, bool) {
			h = strings.TrimSpace(h)
			if h == "-" {
				return "", true
			}
			b, err := unhx(h)
			return string(b), err == nil
		}
		src0, ok0 := dec(f[1])
		src1, ok1 := dec(f[2])
		if !ok0 || !ok1 {
			return "badreq hex"
		}
		v0, err := parser.New(lexer.NewFromString(src0)).ParseVCLOrSnippet()
		if err != nil {
			return "orig-perr " + firstLine(err)
		}
		v1, err := parser.New(lexer.NewFromString(src1)).ParseVCLOrSnippet()
		if err != nil {
			return "new-perr " + firstLine(err)
		}
		exp := faProgram(v0.Statements, c, true)
		got := faProgram(v1.Statements, c, false)
		if exp == got {
			return fmt.Sprintf("same %d %s", len(v0.Statements), b01(v0.IsSnippet))
		}
		if len(exp) > 3000 {
			exp = exp[:3000]
		}
		if len(got) > 3000 {
			got = got[:3000]
		}
		return fmt.Sprintf("diff %d %d %s %s", len(v0.Statements), len(v1.Statements), strings.ReplaceAll(exp, " ", "_"), strings.ReplaceAll(got, " ", "_"))
	})
}
