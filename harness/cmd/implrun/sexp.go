package main

import (
	"encoding/hex"
	"fmt"
	"strings"
)

func hx(s string) string { return `"` + hex.EncodeToString([]byte(s)) + `"` }
func unhx(s string) ([]byte, error) { return hex.DecodeString(s) }
func b01(b bool) string {
	if b {
		return "1"
	}
	return "0"
}
func u64(v uint64) string { return fmt.Sprintf("x%016x", v) }
func sx(head string, parts ...string) string {
	if len(parts) == 0 {
		return "(" + head + ")"
	}
	return "(" + head + " " + strings.Join(parts, " ") + ")"
}
func lst(parts []string) string { return "(" + strings.Join(parts, " ") + ")" }
