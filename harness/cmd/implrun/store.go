package main

// implrun snapshot: runs the real interpreter on a generated program and reports, BEFORE every
// statement it executes (any nesting, any frame) and once at the end, the raw contents of every
// local variable of the executing frame (through the add-only `verif` accessor) and of every
// pooled non-local name (ctx cells, headers, re.group.N - read with ProcessExpression on an
// identifier, which allocates nothing the program can see).
//
// request : <scope> <pool: comma separated names or -> <hex of VCL> [logcheck]    (entry point: sub t_main)
// reply   : ok (e <line> <depth> <frame> (<local> <val>)... | <pool val>...) ... (end <status> <frame> ...) (logs "hex"...)
//           initerr <msg> when the program does not load

import (
	"bytes"
	"io"
	"fmt"
	"math"
	ghttp "net/http"
	"reflect"
	"sort"
	"strings"

	"github.com/ysugimoto/falco/v2/ast"
	"github.com/ysugimoto/falco/v2/interpreter"
	icontext "github.com/ysugimoto/falco/v2/interpreter/context"
	ihttp "github.com/ysugimoto/falco/v2/interpreter/http"
	"github.com/ysugimoto/falco/v2/interpreter/value"
	"github.com/ysugimoto/falco/v2/resolver"
	"github.com/ysugimoto/falco/v2/token"
)

func init() { register("snapshot", storeSnapshot) }

func stVal(v value.Value) string {
	switch t := v.(type) {
	case nil:
		return "(nil)"
	case *value.Integer:
		fl := ""
		if t.IsNAN || t.IsNegativeInf || t.IsPositiveInf {
			fl = " flags" + b01(t.IsNAN) + b01(t.IsNegativeInf) + b01(t.IsPositiveInf)
		}
		return "(I " + u64(uint64(t.Value)) + " " + b01(t.Literal) + fl + ")"
	case *value.Float:
		fl := ""
		if t.IsNAN || t.IsNegativeInf || t.IsPositiveInf {
			fl = " flags" + b01(t.IsNAN) + b01(t.IsNegativeInf) + b01(t.IsPositiveInf)
		}
		return "(F " + u64(math.Float64bits(t.Value)) + " " + b01(t.Literal) + fl + ")"
	case *value.String:
		return "(S " + hx(t.Value) + " " + b01(t.IsNotSet) + " " + b01(t.Literal) + ")"
	case *value.Boolean:
		return "(B " + b01(t.Value) + " " + b01(t.Literal) + ")"
	case *value.RTime:
		return "(R " + u64(uint64(int64(t.Value))) + " " + b01(t.Literal) + ")"
	default:
		if v == value.Null {
			return "(null)"
		}
		return "(O " + string(v.Type()) + " " + hx(v.String()) + ")"
	}
}

type storeDebugger struct {
	i      *interpreter.Interpreter
	pool   []string
	out    []string
	logs   []string
	slim   bool // log cross-check mode: only what `log <name>;` statements need
	frames map[uintptr]int
	keep   []map[string]value.Value // keeps every frame's map alive so that an address is never reused
}

// frame returns a small number identifying the executing frame (identity of its locals map)
func (d *storeDebugger) frame() int {
	m := d.i.VerifStoreLocals()
	p := reflect.ValueOf(m).Pointer()
	if id, ok := d.frames[p]; ok {
		return id
	}
	id := len(d.frames)
	d.frames[p] = id
	d.keep = append(d.keep, m)
	return id
}

func (d *storeDebugger) snap(head string) {
	var sb strings.Builder
	sb.WriteString("(" + head)
	locals := d.i.VerifStoreLocals()
	names := make([]string, 0, len(locals))
	for n := range locals {
		names = append(names, n)
	}
	sort.Strings(names)
	for _, n := range names {
		sb.WriteString(" (" + n + " " + stVal(locals[n]) + ")")
	}
	sb.WriteString(" |")
	for _, n := range d.pool {
		if strings.HasPrefix(n, "@") {
			// ctx cells no variable of this scope reads: what `error <code> <response>;` writes
			c := d.i.VerifStoreContext()
			switch n {
			case "@obj.status":
				sb.WriteString(" " + stVal(c.ObjectStatus))
			case "@obj.response":
				sb.WriteString(" " + stVal(c.ObjectResponse))
			case "@obj.body":
				// what `synthetic` / `synthetic.base64` write: ctx.Object.Body (read and rewound)
				if c.Object == nil || c.Object.Body == nil {
					sb.WriteString(" (S \"\" 1 0)")
				} else {
					b, _ := io.ReadAll(c.Object.Body)
					c.Object.Body = io.NopCloser(bytes.NewReader(b))
					sb.WriteString(" (S " + hx(string(b)) + " 0 0)")
				}
			case "@workspace":
				// the accounting counter `set` / `add` of a request header charges (Gen/StoreEffects.v: Set, Add)
				sb.WriteString(" (I " + u64(uint64(c.RequestWorkspaceBytes)) + " 0)")
			case "@fastly.error":
				// what the built-ins listed with FastlyError in Gen/StoreEffects.v write
				if c.FastlyError == nil {
					sb.WriteString(" (nil)")
				} else {
					sb.WriteString(" " + stVal(c.FastlyError))
				}
			default:
				sb.WriteString(" (undef)")
			}
			continue
		}
		v, err := d.i.ProcessExpression(&ast.Ident{Meta: ast.New(token.Token{Type: token.IDENT, Literal: n}, 0), Value: n})
		if err != nil {
			sb.WriteString(" (undef)")
		} else {
			sb.WriteString(" " + stVal(v))
		}
	}
	sb.WriteString(")")
	d.out = append(d.out, sb.String())
}

func (d *storeDebugger) Run(n ast.Node) interpreter.DebugState {
	if d.slim {
		// (l <line> <depth> <raw value of the logged name>) for `log <identifier>;`, (s <line> <depth>) otherwise
		if _, isDecl := n.(*ast.SubroutineDeclaration); isDecl {
			return interpreter.DebugStepIn
		}
		if ls, ok := n.(*ast.LogStatement); ok {
			if id, ok := ls.Value.(*ast.Ident); ok {
				var v value.Value
				if strings.HasPrefix(id.Value, "var.") {
					v = d.i.VerifStoreLocals()[id.Value]
				} else if x, err := d.i.ProcessExpression(&ast.Ident{Meta: id.Meta, Value: id.Value}); err == nil {
					v = x
				}
				d.out = append(d.out, fmt.Sprintf("(l %d %d %s)", n.GetMeta().Token.Line, d.i.VerifStoreCallDepth(), stVal(v)))
				return interpreter.DebugStepIn
			}
		}
		if _, ok := n.(ast.Statement); ok {
			d.out = append(d.out, fmt.Sprintf("(s %d %d)", n.GetMeta().Token.Line, d.i.VerifStoreCallDepth()))
		}
		return interpreter.DebugStepIn
	}
	if _, ok := n.(ast.Statement); ok {
		if _, isDecl := n.(*ast.SubroutineDeclaration); !isDecl {
			d.snap(fmt.Sprintf("e %d %d %d", n.GetMeta().Token.Line, d.i.VerifStoreCallDepth(), d.frame()))
		}
	}
	return interpreter.DebugStepIn
}
func (d *storeDebugger) Message(string) {}
func (d *storeDebugger) Log(_ *ast.LogStatement, s string) {
	d.logs = append(d.logs, s)
}

// storeProbeVCL is a SECOND service, run on a FRESH interpreter of the same process after the request's
// program: the defaults of a local of every declarable type (value.Create), of a few ctx variables, a header and
// re.group.0, and what an unassigned REGEX local matches.  Whatever the program did, this must look exactly as it
// looks in a process that has run nothing: anything else is process-global state reachable from evaluation.
const storeProbeVCL = `backend P_b { .host = "127.0.0.9"; .port = "80"; }
acl P_a { "10.9.0.0"/16; }
table p_rt REGEX { "a": "^a+", }
sub p_id(REGEX var.r, BACKEND var.k, STRING var.s) STRING {
  return var.s;
}
sub t_main {
  declare local var.pi INTEGER;
  declare local var.pf FLOAT;
  declare local var.ps STRING;
  declare local var.pb BOOL;
  declare local var.pr RTIME;
  declare local var.pt TIME;
  declare local var.pp IP;
  declare local var.pk BACKEND;
  declare local var.pa ACL;
  declare local var.px REGEX;
  declare local var.py REGEX;
  declare local var.m1 BOOL;
  declare local var.m2 BOOL;
  set var.ps = "aaa";
  set var.m1 = (var.ps ~ var.px);
  set var.py = table.lookup_regex(p_rt, "nokey");
  set var.m2 = (var.ps ~ var.py);
  set var.ps = p_id(var.px, var.pk, var.ps);
  log "probe";
}
`

var storeProbePool = []string{"req.max_stale_if_error", "req.max_stale_while_revalidate", "req.http.ha", "re.group.0", "re.group.1", "client.identity", "req.backend"}

func storeProbe() string {
	i := interpreter.New(icontext.WithResolver(resolver.NewStaticResolver("probe.vcl", storeProbeVCL)))
	d := &storeDebugger{i: i, pool: storeProbePool, frames: map[uintptr]int{}}
	req, err := ihttp.NewRequest(ghttp.MethodGet, "http://localhost/", ghttp.NoBody)
	if err != nil {
		return "(probe initerr)"
	}
	req.RemoteAddr = "192.0.2.1:11111"
	if err := i.TestProcessInit(req); err != nil {
		return "(probe initerr " + hx(strings.SplitN(err.Error(), "\n", 2)[0]) + ")"
	}
	i.SetScope(icontext.RecvScope)
	sub, ok := i.VerifStoreContext().Subroutines["t_main"]
	if !ok {
		return "(probe nomain)"
	}
	_, _, _, rerr := i.ProcessBlockStatement(sub.Block.Statements, interpreter.DebugPass, false)
	status := "ok"
	if rerr != nil {
		status = "err " + hx(strings.SplitN(rerr.Error(), "\n", 2)[0])
	}
	d.snap("probe " + status)
	return d.out[len(d.out)-1]
}

func storeSnapshot(args string) string {
	f := strings.Fields(args)
	if len(f) != 3 && len(f) != 4 {
		return "badreq"
	}
	scope := icontext.ScopeByString(f[0])
	var pool []string
	if f[1] != "-" {
		pool = strings.Split(f[1], ",")
	}
	src, err := unhx(f[2])
	if err != nil {
		return "badreq hex"
	}
	i := interpreter.New(icontext.WithResolver(resolver.NewStaticResolver("main.vcl", string(src))))
	d := &storeDebugger{i: i, pool: pool, frames: map[uintptr]int{}, slim: len(f) == 4 && f[3] == "logcheck"}
	req, err := ihttp.NewRequest(ghttp.MethodGet, "http://localhost/", ghttp.NoBody)
	if err != nil {
		return "initerr request"
	}
	req.RemoteAddr = "192.0.2.1:11111"
	if err := i.TestProcessInit(req); err != nil {
		return "initerr " + strings.SplitN(err.Error(), "\n", 2)[0]
	}
	i.Debugger = d
	i.SetScope(scope)
	sub, ok := i.VerifStoreContext().Subroutines["t_main"]
	if !ok {
		return "initerr no t_main"
	}
	_, state, _, rerr := i.ProcessBlockStatement(sub.Block.Statements, interpreter.DebugStepIn, false)
	status := "ok"
	if rerr != nil {
		status = "err"
	} else if state != interpreter.NONE {
		status = "state-" + string(state)
	}
	if d.slim {
		d.out = append(d.out, "(end "+status+")")
	} else {
		d.snap(fmt.Sprintf("end %s %d", status, d.frame()))
	}
	logs := make([]string, len(d.logs))
	for k, l := range d.logs {
		logs[k] = hx(l)
	}
	msg := ""
	if rerr != nil {
		msg = " (msg " + hx(strings.SplitN(rerr.Error(), "\n", 2)[0]) + ")"
	}
	probe := ""
	if !d.slim {
		probe = " " + storeProbe()
	}
	return "ok " + strings.Join(d.out, " ") + " (logs " + strings.Join(logs, " ") + ")" + msg + probe
}
