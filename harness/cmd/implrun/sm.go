package main

// implrun sm : the request state machine of the real simulator (C06).
//
// request  (one JSON object per line)
//   {"vcl": "<VCL source; @BACKEND@ is replaced by a backend declaration that points at the
//             in-process origin, @DEAD@ by one that points at a closed port>",
//    "reqs": [{"url": "/a?st=200&cc=max-age%3D60", "adv_ms": 0, "hdr": {"K": "V"}}, ...]}
// A fresh interpreter.New(...) is created per line; the requests are served one after the other by
// Interpreter.ServeHTTP (JSON process report).  adv_ms ages all state that outlives a request
// (verif hook VerifAdvanceClock) before the request is served.
//
// reply    JSON {"res": [ {flows, restarts, cached, error, xcache, xhits, status, logs, origin, panic} ... ],
//                "cache": [{hash, fresh, hits}], "rc": {name: {entry: total}}, "pb": {name: [entries]}}

import (
	"encoding/json"
	"fmt"
	"net/http"
	"net/http/httptest"
	"net/url"
	"sort"
	"strconv"
	"strings"
	"sync"
	"sync/atomic"
	"time"

	"github.com/ysugimoto/falco/v2/interpreter"
	icontext "github.com/ysugimoto/falco/v2/interpreter/context"
	"github.com/ysugimoto/falco/v2/resolver"
)

type smReq struct {
	URL     string            `json:"url"`
	AdvMs   int64             `json:"adv_ms"`
	Hdr     map[string]string `json:"hdr"`
	StartMs int               `json:"start_ms"` // conc: when the request is sent, relative to the start of the batch
}

type smCase struct {
	VCL  string  `json:"vcl"`
	Reqs []smReq `json:"reqs"`
}

type smRes struct {
	Flows    []string `json:"flows"`
	Restarts int      `json:"restarts"`
	Cached   bool     `json:"cached"`
	Error    string   `json:"error"`
	XCache   *string  `json:"xcache"`
	XHits    *string  `json:"xhits"`
	Status   int      `json:"status"`
	HTTP     int      `json:"http"`
	Logs     []string `json:"logs"`
	Origin   int64    `json:"origin"`
	ErrObj   bool     `json:"errobj"` // the response is the synthetic object of vcl_error (no X-Origin-Path header)
	Panic    string   `json:"panic,omitempty"`
	Raw      string   `json:"raw,omitempty"`
}

var (
	originOnce sync.Once
	originSrv  *httptest.Server
	originHits atomic.Int64
	deadPort   string

	originMu    sync.Mutex
	originByURL = map[string]int{} // origin fetches per request URI since the last originReset()
)

func originReset() {
	originMu.Lock()
	originByURL = map[string]int{}
	originMu.Unlock()
}

func originCounts() map[string]int {
	originMu.Lock()
	defer originMu.Unlock()
	out := map[string]int{}
	for k, v := range originByURL {
		out[k] = v
	}
	return out
}

// the origin: status and caching headers are chosen by the query string of the request
func originHandler(w http.ResponseWriter, r *http.Request) {
	originHits.Add(1)
	originMu.Lock()
	originByURL[r.URL.RequestURI()]++
	originMu.Unlock()
	q := r.URL.Query()
	if v := q.Get("cc"); v != "" {
		w.Header().Set("Cache-Control", v)
	}
	if v := q.Get("sc"); v != "" {
		w.Header().Set("Surrogate-Control", v)
	}
	w.Header().Set("X-Origin-Path", r.URL.Path)
	st := 200
	if v := q.Get("st"); v != "" {
		if n, err := strconv.Atoi(v); err == nil {
			st = n
		}
	}
	if d := q.Get("delay"); d != "" {
		if n, err := strconv.Atoi(d); err == nil {
			time.Sleep(time.Duration(n) * time.Millisecond)
		}
	}
	w.WriteHeader(st)
	w.Write([]byte("origin " + r.URL.RequestURI())) // nolint:errcheck
}

func startOrigin() {
	originOnce.Do(func() {
		originSrv = httptest.NewServer(http.HandlerFunc(originHandler))
		// a port nobody listens on: open a server, remember its port, close it
		d := httptest.NewServer(http.HandlerFunc(originHandler))
		u, _ := url.Parse(d.URL)
		deadPort = u.Port()
		d.Close()
	})
}

func backendDecl(name, host, port string) string {
	return fmt.Sprintf("backend %s { .host = \"%s\"; .port = \"%s\"; .ssl = false; .first_byte_timeout = 5s; }\n", name, host, port)
}

func smVCL(src string) string {
	startOrigin()
	u, _ := url.Parse(originSrv.URL)
	src = strings.ReplaceAll(src, "@BACKEND@", backendDecl("origin", u.Hostname(), u.Port()))
	src = strings.ReplaceAll(src, "@DEAD@", backendDecl("dead", "127.0.0.1", deadPort))
	return src
}

type smReport struct {
	Flows []struct {
		Subroutine string `json:"subroutine"`
		Name       string `json:"name"`
	} `json:"flows"`
	Logs []struct {
		Message string `json:"message"`
	} `json:"logs"`
	Restarts       int    `json:"restarts"`
	Cached         bool   `json:"cached"`
	Error          string `json:"error"`
	ClientResponse struct {
		StatusCode int               `json:"status_code"`
		Headers    map[string]string `json:"headers"`
	} `json:"client_response"`
}

// smServe serves one request on ip and projects the JSON process report.
func smServe(ip http.Handler, rq smReq) (res smRes) {
	before := originHits.Load()
	defer func() {
		res.Origin = originHits.Load() - before
		if r := recover(); r != nil {
			res.Panic = strings.SplitN(fmt.Sprint(r), "\n", 2)[0]
		}
	}()
	rec := httptest.NewRecorder()
	req := httptest.NewRequest(http.MethodGet, "http://localhost"+rq.URL, nil)
	for k, v := range rq.Hdr {
		req.Header.Set(k, v)
	}
	ip.ServeHTTP(rec, req)
	return smProject(rec.Code, rec.Body.Bytes())
}

func smProject(code int, body []byte) (res smRes) {
	res.HTTP = code
	var rep smReport
	if err := json.Unmarshal(body, &rep); err != nil {
		res.Raw = strings.TrimSpace(string(body))
		if len(res.Raw) > 300 {
			res.Raw = res.Raw[:300]
		}
		return res
	}
	for _, f := range rep.Flows {
		if f.Subroutine != "" {
			res.Flows = append(res.Flows, f.Subroutine)
		}
	}
	for _, l := range rep.Logs {
		res.Logs = append(res.Logs, l.Message)
	}
	res.Restarts = rep.Restarts
	res.Cached = rep.Cached
	res.Error = rep.Error
	res.Status = rep.ClientResponse.StatusCode
	if v, ok := rep.ClientResponse.Headers["x-cache"]; ok {
		res.XCache = &v
	}
	if v, ok := rep.ClientResponse.Headers["x-cache-hits"]; ok {
		res.XHits = &v
	}
	if _, ok := rep.ClientResponse.Headers["x-origin-path"]; !ok && res.XCache != nil {
		res.ErrObj = true
	}
	return res
}

type smCacheItem struct {
	Hash  string `json:"hash"`
	Fresh bool   `json:"fresh"`
	Hits  int    `json:"hits"`
}

type smFinal struct {
	Res   []smRes                     `json:"res"`
	Cache []smCacheItem               `json:"cache"`
	RC    map[string]map[string]int64 `json:"rc"`
	PB    map[string][]string         `json:"pb"`
}

func smSnapshot(ip *interpreter.Interpreter, out *smFinal) {
	for _, it := range ip.VerifCache().VerifSnapshot() {
		out.Cache = append(out.Cache, smCacheItem{Hash: it.Hash, Fresh: it.ExpiresInMs >= 0, Hits: it.Hits})
	}
	sort.Slice(out.Cache, func(a, b int) bool { return out.Cache[a].Hash < out.Cache[b].Hash })
	out.RC = map[string]map[string]int64{}
	for n, rc := range ip.VerifRateCounters() {
		out.RC[n] = rc.VerifTotals()
	}
	out.PB = map[string][]string{}
	for n, pb := range ip.VerifPenaltyBoxes() {
		es := pb.VerifEntries()
		sort.Strings(es)
		out.PB[n] = es
	}
}

func smNew(vcl string, opts ...icontext.Option) *interpreter.Interpreter {
	all := append([]icontext.Option{icontext.WithResolver(resolver.NewStaticResolver("main", smVCL(vcl)))}, opts...)
	return interpreter.New(all...)
}

func init() {
	register("sm", func(args string) string {
		var c smCase
		if err := json.Unmarshal([]byte(args), &c); err != nil {
			return "badreq " + err.Error()
		}
		ip := smNew(c.VCL)
		var out smFinal
		for _, rq := range c.Reqs {
			if rq.AdvMs > 0 {
				ip.VerifAdvanceClock(time.Duration(rq.AdvMs) * time.Millisecond)
			}
			out.Res = append(out.Res, smServe(ip, rq))
		}
		smSnapshot(ip, &out)
		b, _ := json.Marshal(out)
		return string(b)
	})
}
