package main

// parsecomments <hexsrc>
//   the comment placement of the real parser:
//     raw       every token of the real lexer up to the first EOF (LF, COMMENT, ... included)
//     decorated what Parser.ReadPeek makes of it: one entry per *ast.Meta that becomes curToken, with
//               Nest, PreviousEmptyLines and the Leading comments (offset, PrefixedLineFeed, PreviousEmptyLines)
//     tree      after ParseVCL / ParseSnippetVCL: every comment reachable from the tree, by walking all
//               *ast.Meta of the tree (Leading / Infix / Trailing), "-" when the source does not parse

import (
	"fmt"
	"reflect"
	"strings"

	"github.com/ysugimoto/falco/v2/ast"
	"github.com/ysugimoto/falco/v2/lexer"
	"github.com/ysugimoto/falco/v2/parser"
	"github.com/ysugimoto/falco/v2/token"
)

func rawToks(src string) []token.Token {
	l := lexer.NewFromString(src)
	var out []token.Token
	for {
		t := l.NextToken()
		out = append(out, t)
		if t.Type == token.EOF || len(out) > 4*len(src)+8 {
			return out
		}
	}
}

func renderMeta(m *ast.Meta) string {
	cs := make([]string, len(m.Leading))
	for i, c := range m.Leading {
		cs[i] = fmt.Sprintf("%s.%s.%d", tid(c.Token), b01(c.PrefixedLineFeed), c.PreviousEmptyLines)
	}
	return fmt.Sprintf("%s:%s:%d:%d:%s", string(m.Token.Type), tid(m.Token), m.Nest, m.PreviousEmptyLines, strings.Join(cs, ","))
}

// identity of a token: line-position of the real lexer
//   (rendered as the index of the token in the raw stream)
var tidIndex map[string]int

func tkey(t token.Token) string { return fmt.Sprintf("%d-%d", t.Line, t.Position) }
func tid(t token.Token) string {
	if i, ok := tidIndex[tkey(t)]; ok {
		return fmt.Sprintf("%d", i)
	}
	return "?" + tkey(t)
}

func renderRaw(ts []token.Token) string {
	parts := make([]string, len(ts))
	for i, t := range ts {
		parts[i] = fmt.Sprintf("%s:%x:%d", string(t.Type), t.Literal, i)
	}
	return strings.Join(parts, ";")
}

var metaType = reflect.TypeOf(&ast.Meta{})

func walkMetas(v reflect.Value, seen map[uintptr]bool, visit func(*ast.Meta)) {
	switch v.Kind() {
	case reflect.Ptr:
		if v.IsNil() {
			return
		}
		if seen[v.Pointer()] {
			return
		}
		seen[v.Pointer()] = true
		if v.Type() == metaType {
			visit(v.Interface().(*ast.Meta))
			return
		}
		walkMetas(v.Elem(), seen, visit)
	case reflect.Interface:
		if !v.IsNil() {
			walkMetas(v.Elem(), seen, visit)
		}
	case reflect.Struct:
		for i := 0; i < v.NumField(); i++ {
			if v.Type().Field(i).PkgPath != "" { // unexported
				continue
			}
			walkMetas(v.Field(i), seen, visit)
		}
	case reflect.Slice, reflect.Array:
		for i := 0; i < v.Len(); i++ {
			walkMetas(v.Index(i), seen, visit)
		}
	}
}

func init() {
	register("parsecomments", func(args string) (res string) {
		defer func() {
			if r := recover(); r != nil {
				res = fmt.Sprintf("panic %v", r)
			}
		}()
		b, err := unhx(strings.TrimSpace(args))
		if err != nil {
			return "badreq"
		}
		src := string(b)
		raw := rawToks(src)
		tidIndex = map[string]int{}
		for i, t := range raw {
			if _, ok := tidIndex[tkey(t)]; !ok {
				tidIndex[tkey(t)] = i
			}
		}
		// decorated stream
		p := parser.New(lexer.NewFromString(src))
		var dec []string
		for i := 0; i < len(raw)+2; i++ {
			m := p.CurToken()
			dec = append(dec, renderMeta(m))
			if m.Token.Type == token.EOF {
				break
			}
			p.NextToken()
		}
		// tree census
		tree := "-"
		p2 := parser.New(lexer.NewFromString(src))
		var root interface{}
		var perr error
		snippet := false
		first := p2.CurToken().Token.Type
		switch first {
		case token.ACL, token.IMPORT, token.INCLUDE, token.BACKEND, token.DIRECTOR, token.TABLE, token.SUBROUTINE,
			token.PENALTYBOX, token.RATECOUNTER, token.EOF:
			root, perr = p2.ParseVCL()
		default:
			snippet = true
			root, perr = p2.ParseSnippetVCL()
		}
		if perr == nil {
			var parts []string
			walkMetas(reflect.ValueOf(root), map[uintptr]bool{}, func(m *ast.Meta) {
				for _, c := range m.Leading {
					parts = append(parts, fmt.Sprintf("L%s@%s", tid(c.Token), tid(m.Token)))
				}
				for _, c := range m.Infix {
					parts = append(parts, fmt.Sprintf("I%s@%s", tid(c.Token), tid(m.Token)))
				}
				for _, c := range m.Trailing {
					parts = append(parts, fmt.Sprintf("T%s@%s", tid(c.Token), tid(m.Token)))
				}
			})
			tree = b01(snippet) + " " + strings.Join(parts, ",")
		}
		return renderRaw(raw) + " | " + strings.Join(dec, ";") + " | " + tree
	})
}
