package main

// implrun builtin: "<function> <scope> <arg> <arg> ..."
// arg = operand text of evalcell (vI:.. lS:.. ...) or  i<hex ident>  (ID / TABLE / BACKEND / ACL names,
// passed as a bare identifier).  The call is an ast.FunctionCallExpression evaluated by
// Interpreter.ProcessExpression of a real interpreter in the given scope.
// reply: ok <TYPE> | err | (crash / hang detected by the supervisor)

import (
	"encoding/hex"
	"fmt"
	"strings"

	"github.com/ysugimoto/falco/v2/ast"
	icontext "github.com/ysugimoto/falco/v2/interpreter/context"
	"github.com/ysugimoto/falco/v2/interpreter/value"
)

func init() { register("builtin", builtinCmd) }

const builtinDecls = `
table t0 { "a": "1", "b": "2" }
table t1 INTEGER { "a": 1 }
acl a0 { "10.0.0.0"/8; !"10.1.0.0"/16; }
ratecounter rc0 {}
penaltybox pb0 {}
sub f0 { set req.http.X = "1"; }
`

func builtinCmd(args string) string {
	f := strings.Fields(args)
	if len(f) < 2 {
		return "badreq"
	}
	scope := icontext.ScopeByString(f[1])
	ip, err := evNewInterp(cellBackends+builtinDecls, scope)
	if err != nil {
		return "initerr " + strings.SplitN(err.Error(), "\n", 2)[0]
	}
	call := &ast.FunctionCallExpression{
		Meta:     &ast.Meta{},
		Function: &ast.Ident{Meta: &ast.Meta{}, Value: f[0]},
	}
	for i, a := range f[2:] {
		if a[0] == 'i' {
			call.Arguments = append(call.Arguments, &ast.Ident{Meta: &ast.Meta{}, Value: unhex(a[1:])})
			continue
		}
		e, err := cellOperand(ip, fmt.Sprintf("var.a%d", i), a)
		if err != nil {
			return "badreq arg: " + err.Error()
		}
		call.Arguments = append(call.Arguments, e)
	}
	v, err := ip.ProcessExpression(call)
	if err != nil {
		return "err"
	}
	if v == nil {
		return "ok nil"
	}
	if sv, ok := v.(*value.String); ok {
		// length always; the bytes when they are few (the check compares lengths of long results)
		body := "-"
		if len(sv.Value) <= 8192 {
			body = hex.EncodeToString([]byte(sv.Value))
		}
		ns := "0"
		if sv.IsNotSet {
			ns = "1"
		}
		return fmt.Sprintf("ok STRING %d %s %s", len(sv.Value), ns, body)
	}
	return "ok " + string(v.Type())
}
