package main

// implrun lint  (C11, C09): run the real linter.
//   dir <directory>          lint <directory>/main.vcl, include path = <directory>   (resolver/file.go)
//   src <hex of VCL source>  lint an in-memory program (no resolver)
//   inc <directory>          only the include expansion of <directory>/main.vcl (hook VerifResolveIncludes)
// reply: one JSON object
//   {"parse": "<parse error of the main file>" , "fatal": "<l.FatalError>",
//    "diags": [[rule, severity, file, line, position, message], ...]   in report order
//    "scopes": {"<subroutine>": <ctx.Subroutines[name].Scopes>, ...},
//    "resolved": ["sub:<name>" | "<node type>", ...]   (inc only) }

import (
	"encoding/json"
	"fmt"
	"os"
	"path/filepath"
	"strings"

	"github.com/ysugimoto/falco/v2/ast"
	"github.com/ysugimoto/falco/v2/config"
	"github.com/ysugimoto/falco/v2/lexer"
	"github.com/ysugimoto/falco/v2/linter"
	lcontext "github.com/ysugimoto/falco/v2/linter/context"
	"github.com/ysugimoto/falco/v2/parser"
	"github.com/ysugimoto/falco/v2/resolver"
	"github.com/ysugimoto/falco/v2/snippet"
)

type inertLintReply struct {
	Parse    string         `json:"parse"`
	Fatal    string         `json:"fatal"`
	Diags    [][]any        `json:"diags"`
	Scopes   map[string]int `json:"scopes"`
	Resolved []string       `json:"resolved,omitempty"`
}

func inertDiags(l *linter.Linter, base string) [][]any {
	out := [][]any{}
	for _, e := range l.Errors {
		file := e.Token.File
		if base != "" {
			if rel, err := filepath.Rel(base, file); err == nil && !strings.HasPrefix(rel, "..") {
				file = rel
			}
		}
		out = append(out, []any{string(e.Rule), string(e.Severity), file, e.Token.Line, e.Token.Position, e.Message})
	}
	return out
}

func inertLintSource(name, src string, ctx *lcontext.Context, base string, onlyInclude bool) string {
	rep := inertLintReply{Diags: [][]any{}, Scopes: map[string]int{}}
	vcl, err := parser.New(lexer.NewFromString(src, lexer.WithFile(name))).ParseVCL()
	if err != nil {
		rep.Parse = err.Error()
		b, _ := json.Marshal(rep)
		return string(b)
	}
	l := linter.New(&config.LinterConfig{})
	if onlyInclude {
		for _, s := range l.VerifResolveIncludes(vcl.Statements, ctx, true) {
			switch t := s.(type) {
			case *ast.SubroutineDeclaration:
				rep.Resolved = append(rep.Resolved, "sub:"+t.Name.Value)
			default:
				rep.Resolved = append(rep.Resolved, fmt.Sprintf("%T", s))
			}
		}
		if rep.Resolved == nil {
			rep.Resolved = []string{}
		}
	} else {
		l.Lint(vcl, ctx)
		for name, s := range ctx.Subroutines {
			rep.Scopes[name] = s.Scopes
		}
	}
	if l.FatalError != nil && l.FatalError.Error != nil {
		rep.Fatal = l.FatalError.Error.Error()
	}
	rep.Diags = inertDiags(l, base)
	b, _ := json.Marshal(rep)
	return string(b)
}

func init() {
	register("lint", func(args string) string {
		mode, rest, _ := strings.Cut(args, " ")
		switch mode {
		case "src":
			b, err := unhx(rest)
			if err != nil {
				return "badreq " + err.Error()
			}
			return inertLintSource("main.vcl", string(b), lcontext.New(), "", false)
		case "dir", "inc":
			main := filepath.Join(rest, "main.vcl")
			rs, err := resolver.NewFileResolvers(main, []string{rest})
			if err != nil {
				return "badreq " + err.Error()
			}
			m, err := rs[0].MainVCL()
			if err != nil {
				return "badreq " + err.Error()
			}
			abs, _ := filepath.Abs(rest)
			opts := []lcontext.Option{lcontext.WithResolver(rs[0])}
			// optional Fastly managed snippets: <dir>/snippets.json = {"include": {name: vcl}, "scoped": {scope: [{"name":..,"data":..}]}}
			if raw, err := os.ReadFile(filepath.Join(rest, "snippets.json")); err == nil {
				var js struct {
					Include map[string]string `json:"include"`
					Scoped  map[string][]struct {
						Name string `json:"name"`
						Data string `json:"data"`
					} `json:"scoped"`
				}
				if err := json.Unmarshal(raw, &js); err != nil {
					return "badreq " + err.Error()
				}
				sn := &snippet.Snippets{IncludeSnippets: snippet.IncludeSnippets{}, ScopedSnippets: snippet.ScopedSnippets{}}
				for k, v := range js.Include {
					sn.IncludeSnippets[k] = snippet.Item{Name: k, Data: v}
				}
				for sc, items := range js.Scoped {
					for _, it := range items {
						sn.ScopedSnippets[sc] = append(sn.ScopedSnippets[sc], snippet.Item{Name: it.Name, Data: it.Data})
					}
				}
				opts = append(opts, lcontext.WithSnippets(sn))
			}
			return inertLintSource(m.Name, m.Data, lcontext.New(opts...), abs, mode == "inc")
		}
		_ = os.Stderr
		return "badreq unknown mode " + mode
	})
}
