package main

// implrun testrun: runs the real test runner (tester.New(conf, opts).Run(main)) in process on one
// generated main VCL + one generated test file.
//
// request : <cov 0|1> <hex of main.vcl> <hex of main.test.vcl>
//           tree <hex of JSON {"cov": bool, "files": {rel path: text}, "main": rel path, "include_paths": [rel dir], "filter": glob}>
// reply   : ok (case "hex group" "hex name" <scope> <skip> <none|assert|testing|other> (logs "hex"...))... (counter a p f s) <exit>
//           runerr <msg>  when Run itself fails (runTest would print the message and exit 1)

import (
	"encoding/json"
	"fmt"
	"os"
	"path/filepath"
	"strings"

	"github.com/ysugimoto/falco/v2/config"
	icontext "github.com/ysugimoto/falco/v2/interpreter/context"
	ferrors "github.com/ysugimoto/falco/v2/interpreter/function/errors"
	"github.com/ysugimoto/falco/v2/resolver"
	"github.com/ysugimoto/falco/v2/tester"
)

func init() { register("testrun", testRun) }

var testRunSeq int

func testRunDir() (string, error) {
	exe, err := os.Executable()
	if err != nil {
		return "", err
	}
	testRunSeq++
	d := filepath.Join(filepath.Dir(exe), "c10work", fmt.Sprintf("api-%d-%d", os.Getpid(), testRunSeq))
	return d, os.MkdirAll(d, 0o755)
}

type testTree struct {
	Cov          bool              `json:"cov"`
	Files        map[string]string `json:"files"`
	Main         string            `json:"main"`
	IncludePaths []string          `json:"include_paths"`
	Filter       string            `json:"filter"`
	Tags         []string          `json:"tags"`
}

func testRun(args string) string {
	f := strings.Fields(args)
	var tree testTree
	switch {
	case len(f) == 2 && f[0] == "tree":
		raw, err := unhx(f[1])
		if err != nil || json.Unmarshal(raw, &tree) != nil {
			return "badreq tree"
		}
	case len(f) == 3:
		mainSrc, err1 := unhx(f[1])
		testSrc, err2 := unhx(f[2])
		if err1 != nil || err2 != nil {
			return "badreq hex"
		}
		tree = testTree{Cov: f[0] == "1", Main: "main.vcl",
			Files: map[string]string{"main.vcl": string(mainSrc), "main.test.vcl": string(testSrc)}}
	default:
		return "badreq"
	}
	if tree.Filter == "" {
		tree.Filter = "*.test.vcl"
	}
	dir, err := testRunDir()
	if err != nil {
		return "badreq dir " + err.Error()
	}
	defer os.RemoveAll(dir)
	for rel, text := range tree.Files {
		p := filepath.Join(dir, rel)
		if err := os.MkdirAll(filepath.Dir(p), 0o755); err != nil {
			return "badreq mkdir"
		}
		if err := os.WriteFile(p, []byte(text), 0o644); err != nil {
			return "badreq write"
		}
	}
	mainPath := filepath.Join(dir, tree.Main)
	var inc []string
	for _, d := range tree.IncludePaths {
		inc = append(inc, filepath.Join(dir, d))
	}
	rslv, err := resolver.NewFileResolvers(mainPath, inc)
	if err != nil {
		return "runerr " + strings.SplitN(err.Error(), "\n", 2)[0]
	}
	conf := &config.TestConfig{Filter: tree.Filter, Coverage: tree.Cov, IncludePaths: inc, Tags: tree.Tags}
	opts := []icontext.Option{icontext.WithResolver(rslv[0]), icontext.WithOverrideVariables(map[string]any{})}
	factory, err := tester.New(conf, opts).Run(mainPath)
	if err != nil {
		return "runerr " + strings.SplitN(err.Error(), "\n", 2)[0]
	}
	var sb strings.Builder
	sb.WriteString("ok")
	for _, r := range factory.Results {
		for _, c := range r.Cases {
			kind := "none"
			if c.Error != nil {
				switch c.Error.(type) {
				case *ferrors.AssertionError:
					kind = "assert"
				case *ferrors.TestingError:
					kind = "testing"
				default:
					kind = "other"
				}
			}
			logs := make([]string, len(c.Logs))
			for k, l := range c.Logs {
				logs[k] = hx(l)
			}
			fmt.Fprintf(&sb, " (case %s %s %s %s %s (logs %s))", hx(c.Group), hx(c.Name), c.Scope, b01(c.Skip), kind, strings.Join(logs, " "))
		}
	}
	st := factory.Statistics
	exit := 0
	if st.Fails > 0 {
		exit = 1
	}
	fmt.Fprintf(&sb, " (counter %d %d %d %d) %d", st.Asserts, st.Passes, st.Fails, st.Skips, exit)
	return sb.String()
}
