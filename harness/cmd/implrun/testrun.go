package main

// implrun testrun: runs the real test runner (tester.New(conf, opts).Run(main)) in process on one
// generated main VCL + one generated test file.
//
// request : <cov 0|1> <hex of main.vcl> <hex of main.test.vcl>
// reply   : ok (case "hex group" "hex name" <scope> <skip> <none|assert|testing|other> (logs "hex"...))... (counter a p f s) <exit>
//           runerr <msg>  when Run itself fails (runTest would print the message and exit 1)

import (
	"fmt"
	"os"
	"path/filepath"
	"strings"

	"github.com/ysugimoto/falco/v2/config"
	icontext "github.com/ysugimoto/falco/v2/interpreter/context"
	ferrors "github.com/ysugimoto/falco/v2/interpreter/function/errors"
	"github.com/ysugimoto/falco/v2/resolver"
	"github.com/ysugimoto/falco/v2/tester"
)

func init() { register("testrun", testRun) }

var testRunSeq int

func testRunDir() (string, error) {
	exe, err := os.Executable()
	if err != nil {
		return "", err
	}
	testRunSeq++
	d := filepath.Join(filepath.Dir(exe), "c10work", fmt.Sprintf("api-%d-%d", os.Getpid(), testRunSeq))
	return d, os.MkdirAll(d, 0o755)
}

func testRun(args string) string {
	f := strings.Fields(args)
	if len(f) != 3 {
		return "badreq"
	}
	mainSrc, err1 := unhx(f[1])
	testSrc, err2 := unhx(f[2])
	if err1 != nil || err2 != nil {
		return "badreq hex"
	}
	dir, err := testRunDir()
	if err != nil {
		return "badreq dir " + err.Error()
	}
	defer os.RemoveAll(dir)
	mainPath := filepath.Join(dir, "main.vcl")
	if err := os.WriteFile(mainPath, mainSrc, 0o644); err != nil {
		return "badreq write"
	}
	if err := os.WriteFile(filepath.Join(dir, "main.test.vcl"), testSrc, 0o644); err != nil {
		return "badreq write"
	}
	rslv, err := resolver.NewFileResolvers(mainPath, nil)
	if err != nil {
		return "runerr " + strings.SplitN(err.Error(), "\n", 2)[0]
	}
	conf := &config.TestConfig{Filter: "*.test.vcl", Coverage: f[0] == "1"}
	opts := []icontext.Option{icontext.WithResolver(rslv[0]), icontext.WithOverrideVariables(map[string]any{})}
	factory, err := tester.New(conf, opts).Run(mainPath)
	if err != nil {
		return "runerr " + strings.SplitN(err.Error(), "\n", 2)[0]
	}
	var sb strings.Builder
	sb.WriteString("ok")
	for _, r := range factory.Results {
		for _, c := range r.Cases {
			kind := "none"
			if c.Error != nil {
				switch c.Error.(type) {
				case *ferrors.AssertionError:
					kind = "assert"
				case *ferrors.TestingError:
					kind = "testing"
				default:
					kind = "other"
				}
			}
			logs := make([]string, len(c.Logs))
			for k, l := range c.Logs {
				logs[k] = hx(l)
			}
			fmt.Fprintf(&sb, " (case %s %s %s %s %s (logs %s))", hx(c.Group), hx(c.Name), c.Scope, b01(c.Skip), kind, strings.Join(logs, " "))
		}
	}
	st := factory.Statistics
	exit := 0
	if st.Fails > 0 {
		exit = 1
	}
	fmt.Fprintf(&sb, " (counter %d %d %d %d) %d", st.Asserts, st.Passes, st.Fails, st.Skips, exit)
	return sb.String()
}
