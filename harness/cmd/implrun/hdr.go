package main

// implrun hdr / hdrfield : the real header store of the interpreter (C17).
//
//	hdr      request: "<SCOPE> <obj> <op>;<op>;..."   obj in req|bereq|beresp|obj|resp
//	         op:  g <name>[:<key>]            read        -> N | S<hex>
//	              s <name>[:<key>] =<hex>|_   set (_ : the not-set STRING value)   -> ok | err
//	              a <name> =<hex>|_           add                                   -> ok | err
//	              u <name>[:<key>]            unset                                 -> ok | err
//	         reply: one item per op separated by a blank; "unwritable" when a probe set on the
//	         object fails in that scope (object not writable there).
//	hdrfield request: "get <subjecthex> <keyhex>" | "unset <subjecthex> <keyhex>" |
//	                  "set <subjecthex> <keyhex> =<hex>|_"   -> the three functions of field.go
//	                  through a one-header request (GetField is exported, the other two are reached
//	                  through Variable.Set/Unset on a header pre-loaded with the subject).
import (
	"encoding/hex"
	"net/http"
	"strings"

	"github.com/ysugimoto/falco/v2/interpreter"
	"github.com/ysugimoto/falco/v2/interpreter/context"
	"github.com/ysugimoto/falco/v2/interpreter/function/builtin"
	fhttp "github.com/ysugimoto/falco/v2/interpreter/http"
	"github.com/ysugimoto/falco/v2/interpreter/value"
	"github.com/ysugimoto/falco/v2/interpreter/variable"
	"github.com/ysugimoto/falco/v2/resolver"
)

func hdrCtx() *context.Context {
	ctx := context.New()
	req, _ := fhttp.NewRequest("GET", "http://localhost/", nil)
	breq, _ := fhttp.NewRequest("GET", "http://localhost/", nil)
	ctx.Request = req
	ctx.BackendRequest = breq
	mk := func() *fhttp.Response {
		return fhttp.WrapResponse(&http.Response{StatusCode: 200, Header: http.Header{}, Body: http.NoBody})
	}
	ctx.BackendResponse = mk()
	ctx.Object = mk()
	ctx.Response = mk()
	return ctx
}

func hdrVars(scope string, ctx *context.Context) (variable.Variable, context.Scope) {
	switch scope {
	case "RECV":
		return variable.NewRecvScopeVariables(ctx), context.RecvScope
	case "HASH":
		return variable.NewHashScopeVariables(ctx), context.HashScope
	case "HIT":
		return variable.NewHitScopeVariables(ctx), context.HitScope
	case "MISS":
		return variable.NewMissScopeVariables(ctx), context.MissScope
	case "PASS":
		return variable.NewPassScopeVariables(ctx), context.PassScope
	case "FETCH":
		return variable.NewFetchScopeVariables(ctx), context.FetchScope
	case "ERROR":
		return variable.NewErrorScopeVariables(ctx), context.ErrorScope
	case "DELIVER":
		return variable.NewDeliverScopeVariables(ctx), context.DeliverScope
	case "LOG":
		return variable.NewLogScopeVariables(ctx), context.LogScope
	}
	return nil, context.UnknownScope
}

func hdrVal(s string) (value.Value, bool) {
	if s == "_" {
		return &value.String{IsNotSet: true}, true
	}
	if !strings.HasPrefix(s, "=") {
		return nil, false
	}
	b, err := hex.DecodeString(s[1:])
	if err != nil {
		return nil, false
	}
	return &value.String{Value: string(b)}, true
}

func hdrRead(v variable.Variable, sc context.Scope, name string) string {
	val, err := v.Get(sc, name)
	if err != nil {
		return "err"
	}
	s, ok := val.(*value.String)
	if !ok {
		return "type:" + string(val.Type())
	}
	if s.IsNotSet {
		if s.Value != "" {
			return "N!" + hex.EncodeToString([]byte(s.Value))
		}
		return "N"
	}
	return "S" + hex.EncodeToString([]byte(s.Value))
}

// the context of the running request (for the ops that go through built-in functions)
var hdrCurCtx *context.Context

func hdrOps(v variable.Variable, sc context.Scope, obj string, ops string) string {
	var out []string
	for _, op := range strings.Split(ops, ";") {
		f := strings.Fields(op)
		if len(f) == 0 {
			continue
		}
		name := ""
		if len(f) > 1 {
			name = obj + ".http." + f[1]
		}
		switch {
		case f[0] == "hg" && len(f) == 2:
			// header.get(obj, "Name[:key]") : another access path to the same headers
			r, err := builtin.Header_get(hdrCurCtx, &value.Ident{Value: obj}, &value.String{Value: f[1]})
			if err != nil {
				out = append(out, "err")
			} else if s, ok := r.(*value.String); ok && !s.IsNotSet {
				out = append(out, "S"+hex.EncodeToString([]byte(s.Value)))
			} else {
				out = append(out, "N")
			}
		case f[0] == "B" && len(f) == 2:
			// ballast: n further headers Ballast-<i> = "v<i>" set through Variable.Set
			n := 0
			for _, c := range f[1] {
				n = n*10 + int(c-'0')
			}
			res := "ok"
			for i := 0; i < n; i++ {
				bn := obj + ".http.Ballast-" + itoa(i)
				if err := v.Set(sc, bn, "=", &value.String{Value: "v" + itoa(i)}); err != nil {
					res = "err"
				}
			}
			out = append(out, res)
		case f[0] == "g" && len(f) == 2:
			out = append(out, hdrRead(v, sc, name))
		case f[0] == "s" && len(f) == 3:
			val, ok := hdrVal(f[2])
			if !ok {
				return "badreq"
			}
			if err := v.Set(sc, name, "=", val); err != nil {
				out = append(out, "err")
			} else {
				out = append(out, "ok")
			}
		case f[0] == "a" && len(f) == 3:
			val, ok := hdrVal(f[2])
			if !ok {
				return "badreq"
			}
			if err := v.Add(sc, name, val); err != nil {
				out = append(out, "err")
			} else {
				out = append(out, "ok")
			}
		case f[0] == "u" && len(f) == 2:
			if err := v.Unset(sc, name); err != nil {
				out = append(out, "err")
			} else {
				out = append(out, "ok")
			}
		default:
			return "badreq"
		}
	}
	return strings.Join(out, " ")
}

func itoa(i int) string {
	if i == 0 {
		return "0"
	}
	var b []byte
	for i > 0 {
		b = append([]byte{byte('0' + i%10)}, b...)
		i /= 10
	}
	return string(b)
}

func hdrHandler(args string) string {
	f := strings.SplitN(args, " ", 3)
	if len(f) < 3 {
		return "badreq"
	}
	ctx := hdrCtx()
	hdrCurCtx = ctx
	v, sc := hdrVars(f[0], ctx)
	if v == nil {
		return "badreq scope"
	}
	// writability probe on a private name (removed again before the history runs)
	probe := f[1] + ".http.Verif-Probe"
	if err := v.Set(sc, probe, "=", &value.String{Value: "1"}); err != nil {
		return "unwritable"
	}
	if err := v.Unset(sc, probe); err != nil {
		return "unwritable"
	}
	return hdrOps(v, sc, f[1], f[2])
}

func hdrFieldHandler(args string) string {
	f := strings.Fields(args)
	if len(f) < 3 {
		return "badreq"
	}
	sb, e1 := hex.DecodeString(strings.TrimPrefix(f[1], "="))
	kb, e2 := hex.DecodeString(strings.TrimPrefix(f[2], "="))
	if e1 != nil || e2 != nil {
		return "badreq"
	}
	subject, key := string(sb), string(kb)
	switch f[0] {
	case "get":
		r := variable.GetField(subject, key, ",")
		if r.IsNotSet {
			return "N"
		}
		return "S" + hex.EncodeToString([]byte(r.Value))
	case "set", "unset":
		// reach setField/unsetField through the response-header path: the subject is placed
		// directly into the header map, the result read back from the map
		ctx := hdrCtx()
		v, sc := hdrVars("DELIVER", ctx)
		ctx.Response.Header["X"] = []string{subject}
		ctx.Response.Assign("X")
		var err error
		if f[0] == "set" {
			if len(f) != 4 {
				return "badreq"
			}
			val, ok := hdrVal(f[3])
			if !ok {
				return "badreq"
			}
			err = v.Set(sc, "resp.http.X:"+key, "=", val)
		} else {
			err = v.Unset(sc, "resp.http.X:"+key)
		}
		if err != nil {
			return "err"
		}
		vals, ok := ctx.Response.Header["X"]
		if !ok {
			return "D"
		}
		return "S" + hex.EncodeToString([]byte(vals[0]))
	}
	return "badreq"
}

// hdrmulti: "<pre-ops on req> | <ops>" - several objects of ONE request, built the way the simulator
// builds them: a real interpreter, TestProcessInit (bereq from req through createBackendRequest,
// beresp fresh, resp and obj cloned from it).  The pre-ops run on req (vcl_recv), then the derived
// objects are rebuilt from the modified req by a second TestProcessInit, then the ops:
//
//	g OBJ.T | s OBJ.T V | a OBJ.N V | u OBJ.T      as for hdr, OBJ in req|bereq|beresp|obj|resp
//	d DST<SRC                                       DST = SRC.Clone()  (resp<obj, resp<beresp, obj<beresp)
//	@SCOPE                                          go on with the variables of that scope (same context)
//
// reply: items of the pre-ops, "|", items of the ops ("ok" for d and @).
func hdrMultiOps(ctx *context.Context, scope string, ops string) []string {
	var out []string
	hdrCurCtx = ctx
	v, sc := hdrVars(scope, ctx)
	for _, op := range strings.Split(ops, ";") {
		f := strings.Fields(op)
		if len(f) == 0 {
			continue
		}
		if strings.HasPrefix(f[0], "@") {
			nv, nsc := hdrVars(f[0][1:], ctx)
			if nv == nil {
				return append(out, "badreq")
			}
			v, sc = nv, nsc
			out = append(out, "ok")
			continue
		}
		if f[0] == "d" && len(f) == 2 {
			dst, src, ok := strings.Cut(f[1], "<")
			if !ok {
				return append(out, "badreq")
			}
			var from *fhttp.Response
			switch src {
			case "beresp":
				from = ctx.BackendResponse
			case "obj":
				from = ctx.Object
			case "resp":
				from = ctx.Response
			}
			if from == nil {
				return append(out, "badreq")
			}
			switch dst {
			case "obj":
				ctx.Object = from.Clone()
			case "resp":
				ctx.Response = from.Clone()
			case "beresp":
				ctx.BackendResponse = from.Clone()
			default:
				return append(out, "badreq")
			}
			out = append(out, "ok")
			continue
		}
		if len(f) < 2 {
			return append(out, "badreq")
		}
		obj, target, ok := strings.Cut(f[1], ".")
		if !ok {
			return append(out, "badreq")
		}
		f[1] = target
		out = append(out, hdrOps(v, sc, obj, strings.Join(f, " ")))
	}
	return out
}

func hdrMultiHandler(args string) string {
	pre, ops, ok := strings.Cut(args, "|")
	if !ok {
		return "badreq"
	}
	ip := interpreter.New(context.WithResolver(resolver.NewStaticResolver("main.vcl", "sub vcl_recv {}")))
	req, err := fhttp.NewRequest("GET", "http://localhost/", http.NoBody)
	if err != nil {
		return "initerr"
	}
	req.RemoteAddr = "192.0.2.1:11111"
	if err := ip.TestProcessInit(req); err != nil {
		return "initerr"
	}
	out := hdrMultiOps(ip.VerifStoreContext(), "RECV", pre)
	// rebuild bereq (and the response objects) from the request as it is now
	if err := ip.TestProcessInit(req); err != nil {
		return "initerr"
	}
	out = append(out, "|")
	out = append(out, hdrMultiOps(ip.VerifStoreContext(), "RECV", ops)...)
	return strings.Join(out, " ")
}

func init() {
	register("hdrmulti", hdrMultiHandler)
	register("hdr", hdrHandler)
	register("hdrfield", hdrFieldHandler)
}
