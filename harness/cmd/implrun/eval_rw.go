package main

// implrun rwvar: "<scope> <variable> <hex literal 1> <hex literal 2>"
// read-your-write on a writable predefined variable, in the given scope of a real interpreter:
//   read r0;  set <variable> = <literal 1>;  read r1;  set <variable> = <literal 2>;  read r2
// reply: r0=<value|err> w1=<ok|err> r1=<value|err> w2=<ok|err> r2=<value|err>

import (
	"strings"

	icontext "github.com/ysugimoto/falco/v2/interpreter/context"
)

func init() { register("rwvar", rwVar) }

func rwVar(args string) string {
	f := strings.Fields(args)
	if len(f) != 4 {
		return "badreq"
	}
	ip, err := evNewInterp(cellBackends, icontext.ScopeByString(f[0]))
	if err != nil {
		return "initerr"
	}
	read := func() string {
		v, err := evVar(ip, f[1])
		if err != nil || v == nil {
			return "err"
		}
		return showVal(v)
	}
	write := func(lit string) string {
		stmts, err := evParseSnippet("set " + f[1] + " = " + unhex(lit) + ";")
		if err != nil {
			return "parseerr"
		}
		if err := evRun(ip, stmts); err != nil {
			return "err"
		}
		return "ok"
	}
	r0 := read()
	w1 := write(f[2])
	r1 := read()
	w2 := write(f[3])
	r2 := read()
	return "r0=" + r0 + " w1=" + w1 + " r1=" + r1 + " w2=" + w2 + " r2=" + r2
}
