package main

// fmt / fmtlex commands (C03, C14, C15): the real formatter, parser and lexer of the
// working tree.
//
//   fmt all <config-json> <hex source>
//       -> "parseerr <msg>"                                   (input is not a VCL program)
//        | "f1 crash <msg>" | "f1 nil"                        (formatter panicked / returned nil)
//        | "f1 <hex>" then " | "-separated fields:
//            det same|diff <hex>        the source parsed and formatted a second time in this process
//            re ok|err <msg>            parse of the formatted text
//            ast same|diff <exp> <got>  projected tree of the source (documented rewrites of the
//                                       configuration applied) vs projected tree of the formatted text
//            f2 same|diff <hex>|crash <msg>|nil|err   format(parse(f1)) against f1
//   fmt run <config-json> <hex source> -> "ok <hex>" | "parseerr" | "crash <msg>" | "nil"
//   fmtlex <hex source>
//       -> tokens of the Go lexer up to EOF, space separated:  T:<TYPE>:<hex literal>
//          comments as  C:<n>:<hex literal>  where n = 1 when a line feed (or the start of
//          the file) precedes the comment on its line (ast.Comment.PrefixedLineFeed), else 0.
//          LF tokens are not reported; FASTLY_CONTROL tokens and `pragma …;` are skipped exactly as
//          parser.ReadPeek skips them (Fastly-generated control syntax never reaches the tree).

import (
	"encoding/json"
	"fmt"
	"io"
	"strings"

	"github.com/ysugimoto/falco/v2/ast"
	"github.com/ysugimoto/falco/v2/config"
	"github.com/ysugimoto/falco/v2/formatter"
	"github.com/ysugimoto/falco/v2/lexer"
	"github.com/ysugimoto/falco/v2/parser"
	"github.com/ysugimoto/falco/v2/token"
)

type fmtConf struct {
	IndentWidth                *int    `json:"indent_width"`
	TrailingCommentWidth       *int    `json:"trailing_comment_width"`
	IndentStyle                *string `json:"indent_style"`
	LineWidth                  *int    `json:"line_width"`
	ExplicitStringConcat       *bool   `json:"explicit_string_concat"`
	SortDeclarationProperty    *bool   `json:"sort_declaration_property"`
	AlignDeclarationProperty   *bool   `json:"align_declaration_property"`
	ElseIf                     *bool   `json:"else_if"`
	AlwaysNextLineElseIf       *bool   `json:"always_next_line_else_if"`
	ReturnStatementParenthesis *bool   `json:"return_statement_parenthesis"`
	SortDeclaration            *bool   `json:"sort_declaration"`
	AlignTrailingComment       *bool   `json:"align_trailing_comment"`
	CommentStyle               *string `json:"comment_style"`
	ShouldUseUnset             *bool   `json:"should_use_unset"`
	IndentCaseLabels           *bool   `json:"indent_case_labels"`
	BreakCompoundConditions    *bool   `json:"break_compound_conditions"`
}

// defaults are the `default:"…"` tags of config.FormatConfig (what the CLI uses); the
// translator (trans/fmt_config.go) checks the same list against the Coq model.
func parseFmtConf(js string) (*config.FormatConfig, error) {
	var fc fmtConf
	dec := json.NewDecoder(strings.NewReader(js))
	dec.DisallowUnknownFields()
	if err := dec.Decode(&fc); err != nil {
		return nil, err
	}
	c := &config.FormatConfig{
		IndentWidth: 2, TrailingCommentWidth: 1, IndentStyle: "space", LineWidth: 120,
		ExplicitStringConcat: true, ReturnStatementParenthesis: true, CommentStyle: "none",
		BreakCompoundConditions: true,
	}
	si := func(d *int, s *int) {
		if s != nil {
			*d = *s
		}
	}
	sb := func(d *bool, s *bool) {
		if s != nil {
			*d = *s
		}
	}
	ss := func(d *string, s *string) {
		if s != nil {
			*d = *s
		}
	}
	si(&c.IndentWidth, fc.IndentWidth)
	si(&c.TrailingCommentWidth, fc.TrailingCommentWidth)
	ss(&c.IndentStyle, fc.IndentStyle)
	si(&c.LineWidth, fc.LineWidth)
	sb(&c.ExplicitStringConcat, fc.ExplicitStringConcat)
	sb(&c.SortDeclarationProperty, fc.SortDeclarationProperty)
	sb(&c.AlignDeclarationProperty, fc.AlignDeclarationProperty)
	sb(&c.ElseIf, fc.ElseIf)
	sb(&c.AlwaysNextLineElseIf, fc.AlwaysNextLineElseIf)
	sb(&c.ReturnStatementParenthesis, fc.ReturnStatementParenthesis)
	sb(&c.SortDeclaration, fc.SortDeclaration)
	sb(&c.AlignTrailingComment, fc.AlignTrailingComment)
	ss(&c.CommentStyle, fc.CommentStyle)
	sb(&c.ShouldUseUnset, fc.ShouldUseUnset)
	sb(&c.IndentCaseLabels, fc.IndentCaseLabels)
	sb(&c.BreakCompoundConditions, fc.BreakCompoundConditions)
	return c, nil
}

func firstLine(err error) string {
	return strings.SplitN(err.Error(), "\n", 2)[0]
}

// format one source text: ("", "parseerr …") | ("", "crash …") | ("", "nil") | (text, "")
func fmtOnce(c *config.FormatConfig, src string) (out string, fail string) {
	vcl, err := parser.New(lexer.NewFromString(src)).ParseVCL()
	if err != nil {
		return "", "parseerr " + firstLine(err)
	}
	defer func() {
		if r := recover(); r != nil {
			out, fail = "", "crash "+strings.SplitN(fmt.Sprint(r), "\n", 2)[0]
		}
	}()
	cc := *c
	r := formatter.New(&cc).Format(vcl)
	if r == nil {
		return "", "nil"
	}
	b, err := io.ReadAll(r)
	if err != nil {
		return "", "crash read: " + err.Error()
	}
	return string(b), ""
}

func fmtAll(c *config.FormatConfig, src string) string {
	vcl0, err := parser.New(lexer.NewFromString(src)).ParseVCL()
	if err != nil {
		return "parseerr " + firstLine(err)
	}
	exp := faProgram(vcl0.Statements, c, true)
	f1, fail := fmtOnce(c, src)
	if fail != "" {
		return "f1 " + fail
	}
	parts := []string{fmt.Sprintf("f1 %x", f1)}
	f1b, failb := fmtOnce(c, src)
	if failb == "" && f1b == f1 {
		parts = append(parts, "det same")
	} else {
		parts = append(parts, fmt.Sprintf("det diff %x %s", f1b, failb))
	}
	vcl1, err := parser.New(lexer.NewFromString(f1)).ParseVCL()
	if err != nil {
		parts = append(parts, "re err "+firstLine(err))
		return strings.Join(parts, " | ")
	}
	parts = append(parts, "re ok")
	got := faProgram(vcl1.Statements, c, false)
	if got == exp {
		parts = append(parts, "ast same")
	} else {
		parts = append(parts, "ast diff "+exp+" "+got)
	}
	f2, fail2 := fmtOnce(c, f1)
	switch {
	case fail2 != "":
		parts = append(parts, "f2 "+fail2)
	case f2 == f1:
		parts = append(parts, "f2 same")
	default:
		parts = append(parts, fmt.Sprintf("f2 diff %x", f2))
	}
	return strings.Join(parts, " | ")
}

func fmtLex(src string, pos bool) string {
	sfx := func(t token.Token) string {
		if pos {
			return fmt.Sprintf(":%d:%d", t.Line, t.Position)
		}
		return ""
	}
	l := lexer.NewFromString(src)
	var out []string
	lf := false // parser.ReadPeek: PrefixedLineFeed = an LF since the previous significant token
	for i := 0; ; i++ {
		t := l.NextToken()
		if t.Type == token.EOF {
			break
		}
		if i > 4*len(src)+16 {
			out = append(out, "X:runaway:")
			break
		}
		switch t.Type {
		case token.LF:
			lf = true
			continue
		case token.FASTLY_CONTROL:
			continue // skipped by parser.ReadPeek (Fastly generated "C!" / "W!")
		case token.PRAGMA:
			// skipped by parser.ReadPeek up to the next semicolon
			for t.Type != token.SEMICOLON && t.Type != token.EOF {
				t = l.NextToken()
			}
			continue
		case token.COMMENT:
			out = append(out, fmt.Sprintf("C:%s:%x", b01(lf), t.Literal)+sfx(t))
			// a comment does not reset the flag: the parser looks at the token before the run of comments
			continue
		default:
			out = append(out, fmt.Sprintf("T:%s:%x", string(t.Type), t.Literal)+sfx(t))
		}
		lf = false
	}
	return strings.Join(out, " ")
}

func init() {
	register("fmt", func(args string) string {
		f := strings.SplitN(args, " ", 3)
		if len(f) == 2 {
			f = append(f, "")
		}
		if len(f) != 3 {
			return "badreq"
		}
		c, err := parseFmtConf(f[1])
		if err != nil {
			return "badreq config: " + err.Error()
		}
		src, err := unhx(strings.TrimSpace(f[2]))
		if err != nil {
			return "badreq hex"
		}
		switch f[0] {
		case "all":
			return fmtAll(c, string(src))
		case "run":
			out, fail := fmtOnce(c, string(src))
			if fail != "" {
				return fail
			}
			return fmt.Sprintf("ok %x", out)
		}
		return "badreq"
	})
	register("fmtlex", func(args string) string {
		pos := false
		if rest, ok := strings.CutPrefix(args, "pos "); ok {
			pos, args = true, rest // token positions (line:column) appended, used by gen/decorate.py
		}
		src, err := unhx(strings.TrimSpace(args))
		if err != nil {
			return "badreq hex"
		}
		return fmtLex(string(src), pos)
	})
}

var _ = ast.Comments{}
