package main

// implrun evalcell:  "<kind> <op> <L> <R>"
//   kind a : assignment  `set var.l <op> <R>;`   executed by Interpreter.ProcessSetStatement
//   kind o : operator    `<L> <op> <R>`          executed by Interpreter.ProcessExpression (condition mode)
//   kind c : operator.Concat(L, R) called directly (the series logic of expression.go is covered by evalprog)
// operand = <form><value>, form v = local variable holding the value, l = literal / declared name
// value   = I:<dec>:<nan><ninf><pinf> | F:<16 hex bits>:<flags> | S:<hex>:<notset> | B:<0|1> | R:<ns>[:<literal text>]
//         | T:<unix sec>:<nsec>:<oob> | P:<4|6>:<hex>:<notset> | P:nil:<notset> | K:<hex name>|K:nil | A:<hex name>:<hex of the entries text>
// reply   = ok <value> | err <value> (assignment: the left variable afterwards) ; ok <value> | err (operator)
//           followed by oracle answers:  pip=<4|6>:<hex>|nil (net.ParseIP of the string operand)  re=<1|0|x>

import (
	"encoding/hex"
	"fmt"
	"math"
	"math/big"
	"net"
	"strconv"
	"strings"
	"time"

	"github.com/ysugimoto/falco/v2/ast"
	"github.com/ysugimoto/falco/v2/interpreter"
	icontext "github.com/ysugimoto/falco/v2/interpreter/context"
	"github.com/ysugimoto/falco/v2/interpreter/operator"
	"github.com/ysugimoto/falco/v2/interpreter/value"
	pcre "go.elara.ws/pcre"
)

func init() { register("evalcell", evalCell) }

var aopText = map[string]string{
	"set": "=", "add": "+=", "sub": "-=", "mul": "*=", "div": "/=", "rem": "%=", "or": "|=", "and": "&=", "xor": "^=",
	"shl": "<<=", "shr": ">>=", "rol": "rol=", "ror": "ror=", "lor": "||=", "land": "&&=",
}
var bopText = map[string]string{
	"eq": "==", "ne": "!=", "lt": "<", "gt": ">", "le": "<=", "ge": ">=", "match": "~", "nmatch": "!~", "and": "&&", "or": "||",
}

func flags3(s string) (bool, bool, bool) {
	for len(s) < 3 {
		s += "0"
	}
	return s[0] == '1', s[1] == '1', s[2] == '1'
}

func b01s(b bool) string {
	if b {
		return "1"
	}
	return "0"
}

func ipFromSpec(fam, hx string) net.IP {
	n := new(big.Int)
	n.SetString(hx, 16)
	if fam == "4" {
		b := n.FillBytes(make([]byte, 4))
		return net.IPv4(b[0], b[1], b[2], b[3])
	}
	return net.IP(n.FillBytes(make([]byte, 16)))
}

func hexNoLead(b []byte) string {
	h := strings.TrimLeft(hex.EncodeToString(b), "0")
	if h == "" {
		return "0"
	}
	return h
}

func ipSpec(ip net.IP) string {
	if len(ip) == 0 {
		return "nil"
	}
	if p4 := ip.To4(); p4 != nil {
		return "4:" + hexNoLead(p4)
	}
	return "6:" + hexNoLead(ip.To16())
}

// the main VCL of a cell interpreter: backends b0 b1 and the ACLs used by the request
const cellBackends = "backend b0 { .host = \"localhost\"; .port = \"80\"; }\nbackend b1 { .host = \"localhost\"; .port = \"81\"; }\n" +
	"director d0 random { .quorum = 50%; { .backend = b0; .weight = 1; } { .backend = b1; .weight = 1; } }\n"

func aclDeclText(name, entries string) string {
	var sb strings.Builder
	sb.WriteString("acl " + name + " {\n")
	if entries != "-" && entries != "" {
		for _, e := range strings.Split(entries, ",") {
			neg := strings.HasPrefix(e, "!")
			e = strings.TrimPrefix(e, "!")
			addr, mask, hasMask := strings.Cut(e, "/")
			if neg {
				sb.WriteString("!")
			}
			sb.WriteString("\"" + addr + "\"")
			if hasMask {
				sb.WriteString("/" + mask)
			}
			sb.WriteString(";\n")
		}
	}
	sb.WriteString("}\n")
	return sb.String()
}

type cellVal struct {
	kind  string
	parts []string
}

func parseCellVal(s string) cellVal {
	p := strings.Split(s, ":")
	return cellVal{kind: p[0], parts: p[1:]}
}

func (c cellVal) vclType() string {
	return map[string]string{"I": "INTEGER", "F": "FLOAT", "S": "STRING", "B": "BOOL", "R": "RTIME", "T": "TIME", "P": "IP", "K": "BACKEND", "A": "ACL"}[c.kind]
}

func unhex(s string) string {
	b, _ := hex.DecodeString(s)
	return string(b)
}

// inject the fields of the cell value into the declared local (same dynamic type)
func (c cellVal) inject(ip *interpreter.Interpreter, v value.Value) error {
	switch t := v.(type) {
	case *value.Integer:
		n, err := strconv.ParseInt(c.parts[0], 10, 64)
		if err != nil {
			return err
		}
		t.Value = n
		t.IsNAN, t.IsNegativeInf, t.IsPositiveInf = flags3(c.parts[1])
	case *value.Float:
		u, err := strconv.ParseUint(c.parts[0], 16, 64)
		if err != nil {
			return err
		}
		t.Value = math.Float64frombits(u)
		t.IsNAN, t.IsNegativeInf, t.IsPositiveInf = flags3(c.parts[1])
	case *value.String:
		t.Value = unhex(c.parts[0])
		t.IsNotSet = c.parts[1] == "1"
	case *value.Boolean:
		t.Value = c.parts[0] == "1"
	case *value.RTime:
		n, err := strconv.ParseInt(c.parts[0], 10, 64)
		if err != nil {
			return err
		}
		t.Value = time.Duration(n)
	case *value.Time:
		sec, err := strconv.ParseInt(c.parts[0], 10, 64)
		if err != nil {
			return err
		}
		ns, _ := strconv.ParseInt(c.parts[1], 10, 64)
		t.Value = time.Unix(sec, ns).UTC()
		t.OutOfBounds = c.parts[2] == "1"
	case *value.IP:
		if c.parts[0] == "nil" {
			t.Value = nil
			t.IsNotSet = c.parts[1] == "1"
		} else {
			t.Value = ipFromSpec(c.parts[0], c.parts[1])
			t.IsNotSet = c.parts[2] == "1"
		}
	case *value.Backend:
		if c.parts[0] == "nil" {
			t.Value = nil
		} else {
			bv, err := ip.ProcessExpression(&ast.Ident{Value: unhex(c.parts[0]), Meta: &ast.Meta{}})
			if err != nil {
				return err
			}
			t.Value = bv.(*value.Backend).Value
			t.Director = bv.(*value.Backend).Director
			t.Healthy = bv.(*value.Backend).Healthy
		}
	case *value.Acl:
		av, err := ip.ProcessExpression(&ast.Ident{Value: unhex(c.parts[0]), Meta: &ast.Meta{}})
		if err != nil {
			return err
		}
		t.Value = av.(*value.Acl).Value
	default:
		return fmt.Errorf("inject: unsupported %T", v)
	}
	return nil
}

// literal expression for the cell value
func (c cellVal) literal() (ast.Expression, error) {
	m := &ast.Meta{}
	switch c.kind {
	case "I":
		n, err := strconv.ParseInt(c.parts[0], 10, 64)
		return &ast.Integer{Meta: m, Value: n}, err
	case "F":
		u, err := strconv.ParseUint(c.parts[0], 16, 64)
		return &ast.Float{Meta: m, Value: math.Float64frombits(u)}, err
	case "S":
		return &ast.String{Meta: m, Value: unhex(c.parts[0])}, nil
	case "B":
		return &ast.Boolean{Meta: m, Value: c.parts[0] == "1"}, nil
	case "R":
		if len(c.parts) < 2 {
			return nil, fmt.Errorf("RTIME literal needs its text")
		}
		return &ast.RTime{Meta: m, Value: c.parts[1]}, nil
	case "P":
		if c.parts[0] == "nil" {
			return nil, fmt.Errorf("no nil IP literal")
		}
		return &ast.IP{Meta: m, Value: ipFromSpec(c.parts[0], c.parts[1]).String()}, nil
	case "K", "A":
		if c.parts[0] == "nil" {
			return nil, fmt.Errorf("no nil backend literal")
		}
		return &ast.Ident{Meta: m, Value: unhex(c.parts[0])}, nil
	}
	return nil, fmt.Errorf("no literal form for %s", c.kind)
}

func showVal(v value.Value) string {
	fl := func(a, b, c bool) string { return b01s(a) + b01s(b) + b01s(c) }
	switch t := v.(type) {
	case *value.Integer:
		return fmt.Sprintf("I:%d:%s", t.Value, fl(t.IsNAN, t.IsNegativeInf, t.IsPositiveInf))
	case *value.Float:
		if t.Value != t.Value {
			return fmt.Sprintf("F:nan:%s", fl(t.IsNAN, t.IsNegativeInf, t.IsPositiveInf))
		}
		return fmt.Sprintf("F:%016x:%s", math.Float64bits(t.Value), fl(t.IsNAN, t.IsNegativeInf, t.IsPositiveInf))
	case *value.String:
		return fmt.Sprintf("S:%s:%s", hex.EncodeToString([]byte(t.Value)), b01s(t.IsNotSet))
	case *value.Boolean:
		return "B:" + b01s(t.Value)
	case *value.RTime:
		return fmt.Sprintf("R:%d", int64(t.Value))
	case *value.Time:
		return fmt.Sprintf("T:%d:%d:%s", t.Value.Unix(), t.Value.Nanosecond(), b01s(t.OutOfBounds))
	case *value.IP:
		if len(t.Value) == 0 {
			return "P:nil:" + b01s(t.IsNotSet)
		}
		return "P:" + ipSpec(t.Value) + ":" + b01s(t.IsNotSet)
	case *value.Backend:
		if t.Value == nil && t.Director == nil {
			return "K:nil"
		}
		return "K:" + hex.EncodeToString([]byte(t.String()))
	case *value.Acl:
		if t.Value == nil {
			return "A:nil"
		}
		return "A:" + hex.EncodeToString([]byte(t.Value.Name.Value))
	}
	return fmt.Sprintf("?%T", v)
}

// declare var.<name> of the value's type and inject it; or build the literal
func cellOperand(ip *interpreter.Interpreter, name, spec string) (ast.Expression, error) {
	form, c := spec[0], parseCellVal(spec[1:])
	if form == 'l' {
		return c.literal()
	}
	decl := &ast.DeclareStatement{
		Meta:      &ast.Meta{},
		Name:      &ast.Ident{Meta: &ast.Meta{}, Value: name},
		ValueType: &ast.Ident{Meta: &ast.Meta{}, Value: c.vclType()},
	}
	if err := ip.ProcessDeclareStatement(decl); err != nil {
		return nil, err
	}
	v, err := evVar(ip, name)
	if err != nil {
		return nil, err
	}
	if err := c.inject(ip, v); err != nil {
		return nil, err
	}
	return &ast.Ident{Meta: &ast.Meta{}, Value: name}, nil
}

func cellOracles(specs ...string) string {
	var out []string
	var pat, subj *string
	for i, s := range specs {
		c := parseCellVal(s[1:])
		if c.kind == "S" {
			str := unhex(c.parts[0])
			out = append(out, fmt.Sprintf("pip%d=%s", i, ipSpec(net.ParseIP(str))))
			if i == 0 {
				subj = &str
			} else {
				pat = &str
			}
		}
	}
	if pat != nil && subj != nil {
		re, err := pcre.Compile(*pat)
		if err != nil {
			out = append(out, "re=x")
		} else {
			out = append(out, "re="+b01s(len(re.FindStringSubmatch(*subj)) > 0))
		}
	}
	return strings.Join(out, " ")
}

func evalCell(args string) string {
	f := strings.Fields(args)
	if len(f) != 4 {
		return "badreq"
	}
	kind, op, ls, rs := f[0], f[1], f[2], f[3]
	vcl := cellBackends
	seen := map[string]bool{}
	for _, s := range []string{ls, rs} {
		if c := parseCellVal(s[1:]); c.kind == "A" && !seen[c.parts[0]] {
			seen[c.parts[0]] = true
			vcl += aclDeclText(unhex(c.parts[0]), unhex(c.parts[1]))
		}
	}
	ip, err := evNewInterp(vcl, icontext.RecvScope)
	if err != nil {
		return "initerr " + strings.SplitN(err.Error(), "\n", 2)[0]
	}
	le, err := cellOperand(ip, "var.l", ls)
	if err != nil {
		return "badreq left: " + err.Error()
	}
	re, err := cellOperand(ip, "var.r", rs)
	if err != nil {
		return "badreq right: " + err.Error()
	}
	orc := cellOracles(ls, rs)
	switch kind {
	case "a":
		stmt := &ast.SetStatement{
			Meta:     &ast.Meta{},
			Ident:    &ast.Ident{Meta: &ast.Meta{}, Value: "var.l"},
			Operator: &ast.Operator{Meta: &ast.Meta{}, Operator: aopText[op]},
			Value:    re,
		}
		serr := ip.ProcessSetStatement(stmt)
		v, err := evVar(ip, "var.l")
		if err != nil {
			return "badreq readback"
		}
		if serr != nil {
			return "err " + showVal(v) + " " + orc
		}
		return "ok " + showVal(v) + " " + orc
	case "o":
		ex := &ast.InfixExpression{Meta: &ast.Meta{}, Left: le, Operator: bopText[op], Right: re, Explicit: true}
		v, err := ip.ProcessExpression(ex, interpreter.ConditionExpression())
		if err != nil {
			return "err " + orc
		}
		return "ok " + showVal(v) + " " + orc
	case "c":
		lv, err := ip.ProcessExpression(le)
		if err != nil {
			return "badreq"
		}
		rv, err := ip.ProcessExpression(re)
		if err != nil {
			return "badreq"
		}
		v, err := operator.Concat(lv, rv)
		if err != nil {
			return "err " + orc
		}
		return "ok " + showVal(v) + " " + orc
	}
	return "badreq kind"
}
