package main

// implrun simrun: "<modules> <requests>"
//   modules  = name=hex,name=hex,...   (the first one is the main VCL; the others are include targets)
//   requests = METHOD=hexurl[=hex of "Name: value" header lines];...   served one after the other by ONE interpreter
// Each request goes through Interpreter.ServeHTTP (ProcessInit, vcl_recv ... the whole request flow).
// reply: one word per request:  <http status>:<restarts>:<error 0|1>:<client status>:<number of log lines>
// A Go panic is reported by implrun as "crash ..."; a fatal error (stack overflow) kills the worker.

import (
	"encoding/json"
	"fmt"
	"net/http"
	"net/http/httptest"
	"net/url"
	"os"
	"runtime/debug"
	"strings"
	"sync"

	"github.com/ysugimoto/falco/v2/ast"
	"github.com/ysugimoto/falco/v2/interpreter"
	icontext "github.com/ysugimoto/falco/v2/interpreter/context"
	"github.com/ysugimoto/falco/v2/resolver"
)

func init() { register("simrun", simRun) }

type mapResolver struct {
	main    string
	modules map[string]string
}

func (m *mapResolver) MainVCL() (*resolver.VCL, error) {
	return &resolver.VCL{Name: m.main, Data: m.modules[m.main]}, nil
}
func (m *mapResolver) Resolve(stmt *ast.IncludeStatement) (*resolver.VCL, error) {
	if d, ok := m.modules[stmt.Module.Value]; ok {
		return &resolver.VCL{Name: stmt.Module.Value, Data: d}, nil
	}
	return nil, fmt.Errorf("module %s not found", stmt.Module.Value)
}
func (m *mapResolver) Name() string           { return "map" }
func (m *mapResolver) IncludePaths() []string { return nil }

// loopback origin for the generated services (started on first use, lives as long as the worker)
var (
	evalOriginOnce sync.Once
	evalOriginHost string
	evalOriginPort string
)

func origin() (string, string) {
	evalOriginOnce.Do(func() {
		srv := httptest.NewServer(http.HandlerFunc(func(w http.ResponseWriter, r *http.Request) {
			w.Header().Set("Cache-Control", "max-age=60")
			w.Header().Set("X-Origin", "1")
			w.WriteHeader(http.StatusOK)
			w.Write([]byte("origin")) // nolint:errcheck
		}))
		u, _ := url.Parse(srv.URL)
		evalOriginHost, evalOriginPort = u.Hostname(), u.Port()
	})
	return evalOriginHost, evalOriginPort
}

func simRun(args string) string {
	if os.Getenv("IMPLRUN_TRACE") != "" {
		defer func() {
			if r := recover(); r != nil {
				fmt.Fprintf(os.Stderr, "%v\n%s\n", r, debug.Stack())
				panic(r)
			}
		}()
	}
	f := strings.Fields(args)
	if len(f) != 2 {
		return "badreq"
	}
	r := &mapResolver{modules: map[string]string{}}
	for i, m := range strings.Split(f[0], ",") {
		name, hx, _ := strings.Cut(m, "=")
		if i == 0 {
			r.main = name
		}
		src := unhex(hx)
		if strings.Contains(src, "__BACKEND_HOST__") {
			h, p := origin()
			src = strings.ReplaceAll(strings.ReplaceAll(src, "__BACKEND_HOST__", h), "__BACKEND_PORT__", p)
		}
		r.modules[name] = src
	}
	ip := interpreter.New(icontext.WithResolver(r))
	var out []string
	for _, rq := range strings.Split(f[1], ";") {
		method, hx, _ := strings.Cut(rq, "=")
		hx, hdrs, _ := strings.Cut(hx, "=") // optional third part: hex of "Name: value" lines
		rec := httptest.NewRecorder()
		req := httptest.NewRequest(method, "http://localhost"+unhex(hx), nil)
		for _, line := range strings.Split(unhex(hdrs), "\n") {
			if k, v, ok := strings.Cut(line, ":"); ok {
				req.Header.Set(strings.TrimSpace(k), strings.TrimSpace(v))
			}
		}
		ip.ServeHTTP(rec, req)
		var body struct {
			Restarts int           `json:"restarts"`
			Error    string        `json:"error"`
			Logs     []interface{} `json:"logs"`
			Client   struct {
				StatusCode int `json:"status_code"`
			} `json:"client_response"`
		}
		_ = json.Unmarshal(rec.Body.Bytes(), &body)
		e := "0"
		if body.Error != "" || rec.Code >= 500 {
			e = "1"
		}
		out = append(out, fmt.Sprintf("%d:%d:%s:%d:%d", rec.Code, body.Restarts, e, body.Client.StatusCode, len(body.Logs)))
	}
	return strings.Join(out, " ")
}
