package main

// implrun simrun: "<modules> <requests>"
//   modules  = name=hex,name=hex,...   (the first one is the main VCL; the others are include targets)
//   requests = METHOD=hexurl[=hex of "Name: value" header lines];...   served one after the other by ONE interpreter
// Each request goes through Interpreter.ServeHTTP (ProcessInit, vcl_recv ... the whole request flow).
// reply: one word per request:  <http status>:<restarts>:<error 0|1>:<client status>:<number of log lines>
// A Go panic is reported by implrun as "crash ..."; a fatal error (stack overflow) kills the worker.

import (
	"encoding/json"
	"fmt"
	"net/http"
	"net/http/httptest"
	"net/url"
	"os"
	"path/filepath"
	"runtime/debug"
	"sort"
	"strings"
	"sync"

	"github.com/ysugimoto/falco/v2/ast"
	"github.com/ysugimoto/falco/v2/interpreter"
	icontext "github.com/ysugimoto/falco/v2/interpreter/context"
	"github.com/ysugimoto/falco/v2/resolver"
)

func init() { register("simrun", simRun) }

type mapResolver struct {
	main      string
	modules   map[string]string
	stubNames bool // report a source name that differs from the include string
}

func (m *mapResolver) MainVCL() (*resolver.VCL, error) {
	return &resolver.VCL{Name: m.main, Data: m.modules[m.main]}, nil
}
func (m *mapResolver) Resolve(stmt *ast.IncludeStatement) (*resolver.VCL, error) {
	if d, ok := m.modules[stmt.Module.Value]; ok {
		name := stmt.Module.Value
		if m.stubNames {
			name = "/abs/" + name + ".vcl"
		}
		return &resolver.VCL{Name: name, Data: d}, nil
	}
	return nil, fmt.Errorf("module %s not found", stmt.Module.Value)
}
func (m *mapResolver) Name() string           { return "map" }
func (m *mapResolver) IncludePaths() []string { return nil }

// loopback origin for the generated services (started on first use, lives as long as the worker)
var (
	evalOriginOnce sync.Once
	evalOriginHost string
	evalOriginPort string
)

func origin() (string, string) {
	evalOriginOnce.Do(func() {
		srv := httptest.NewServer(http.HandlerFunc(func(w http.ResponseWriter, r *http.Request) {
			w.Header().Set("Cache-Control", "max-age=60")
			w.Header().Set("X-Origin", "1")
			w.WriteHeader(http.StatusOK)
			w.Write([]byte("origin")) // nolint:errcheck
		}))
		u, _ := url.Parse(srv.URL)
		evalOriginHost, evalOriginPort = u.Hostname(), u.Port()
	})
	return evalOriginHost, evalOriginPort
}

func simRun(args string) string {
	if os.Getenv("IMPLRUN_TRACE") != "" {
		defer func() {
			if r := recover(); r != nil {
				fmt.Fprintf(os.Stderr, "%v\n%s\n", r, debug.Stack())
				panic(r)
			}
		}()
	}
	f := strings.Fields(args)
	if len(f) != 2 {
		return "badreq"
	}
	// resolver kind (prefix of the module list):  map: (default) names are the include strings, VCL.Name = include string;
	// stub: the same but VCL.Name = "/abs/<include string>.vcl"; file: the modules are written to disk as <name>.vcl
	// (a name may contain directories; every directory becomes an include path) and resolved by resolver.NewFileResolvers
	kind := "map"
	spec := f[0]
	for _, k := range []string{"map:", "stub:", "file:"} {
		if strings.HasPrefix(spec, k) {
			kind, spec = strings.TrimSuffix(k, ":"), strings.TrimPrefix(spec, k)
		}
	}
	r := &mapResolver{modules: map[string]string{}, stubNames: kind == "stub"}
	var order []string
	for i, m := range strings.Split(spec, ",") {
		name, hx, _ := strings.Cut(m, "=")
		if i == 0 {
			r.main = name
		}
		src := unhex(hx)
		if strings.Contains(src, "__BACKEND_HOST__") {
			h, p := origin()
			src = strings.ReplaceAll(strings.ReplaceAll(src, "__BACKEND_HOST__", h), "__BACKEND_PORT__", p)
		}
		r.modules[name] = src
		order = append(order, name)
	}
	var ip *interpreter.Interpreter
	if kind == "file" {
		dir, err := os.MkdirTemp(os.Getenv("VERIF_TMP"), "inc")
		if err != nil {
			return "badreq tmp: " + err.Error()
		}
		defer os.RemoveAll(dir)
		paths := map[string]bool{}
		for _, name := range order {
			fp := filepath.Join(dir, name+".vcl")
			if err := os.MkdirAll(filepath.Dir(fp), 0o755); err != nil {
				return "badreq mkdir"
			}
			if err := os.WriteFile(fp, []byte(r.modules[name]), 0o644); err != nil {
				return "badreq write"
			}
			if d := filepath.Dir(fp); d != dir {
				paths[d] = true
			}
		}
		var ips []string
		for p := range paths {
			ips = append(ips, p)
		}
		sort.Strings(ips)
		rs, err := resolver.NewFileResolvers(filepath.Join(dir, r.main+".vcl"), ips)
		if err != nil {
			return "badreq resolver: " + err.Error()
		}
		ip = interpreter.New(icontext.WithResolver(rs[0]))
	} else {
		ip = interpreter.New(icontext.WithResolver(r))
	}
	var out []string
	for _, rq := range strings.Split(f[1], ";") {
		method, hx, _ := strings.Cut(rq, "=")
		hx, hdrs, _ := strings.Cut(hx, "=") // optional third part: hex of "Name: value" lines
		rec := httptest.NewRecorder()
		req := httptest.NewRequest(method, "http://localhost"+unhex(hx), nil)
		for _, line := range strings.Split(unhex(hdrs), "\n") {
			if k, v, ok := strings.Cut(line, ":"); ok {
				req.Header.Set(strings.TrimSpace(k), strings.TrimSpace(v))
			}
		}
		ip.ServeHTTP(rec, req)
		var body struct {
			Restarts int           `json:"restarts"`
			Error    string        `json:"error"`
			Logs     []interface{} `json:"logs"`
			Client   struct {
				StatusCode int `json:"status_code"`
			} `json:"client_response"`
		}
		_ = json.Unmarshal(rec.Body.Bytes(), &body)
		e := "0"
		if body.Error != "" || rec.Code >= 500 {
			e = "1"
		}
		out = append(out, fmt.Sprintf("%d:%d:%s:%d:%d", rec.Code, body.Restarts, e, body.Client.StatusCode, len(body.Logs)))
	}
	return strings.Join(out, " ")
}
