package main

// implrun conc / conc-lint : concurrency of the real code (C18); meant for the binary built with -race
// (build/implrun_race; GORACE=halt_on_error=1 makes the first report kill the process, which the
// supervising Python attributes to the request in flight).
//
// conc       {"vcl": ..., "reqs": [smReq...], "procs": 4, "jitter_us": 200, "seed": 7}
//   one interpreter behind httptest.NewServer; all requests are sent at the same time by goroutines.
//   The lock acquisition order is recorded WITHOUT touching ServeHTTP: an extra context.Option (run by
//   context.New inside ProcessInit, i.e. under i.lock) numbers the acquisitions and publishes the
//   number as the fixed time of the request, which the VCL logs ("seq:" now.sec).
//   Requests carry start_ms (when they are sent); the origin sleeps for the `delay` query parameter (ms), so a
//   request can arrive DURING the origin fetch of another one.
//   reply {"res": [...smRes in request order...], "seq": [acquisition number per request],
//          "origin_by_url": {request URI: origin fetches}, "cache":…, "rc":…, "pb":…}
//
// conc-lint  {"vcl": "<source whose statements carry // @plugin: <name> comments>", "procs": 4}
//   runs the linter (plugins are looked up on PATH: the check prepends build/c18plugins);
//   reply {"messages": [every l.Errors message]}

import (
	"bytes"
	"encoding/json"
	"io"
	"math/rand"
	"net/http"
	"net/http/httptest"
	"runtime"
	"strconv"
	"strings"
	"sync"
	"time"

	"github.com/ysugimoto/falco/v2/config"
	icontext "github.com/ysugimoto/falco/v2/interpreter/context"
	"github.com/ysugimoto/falco/v2/lexer"
	"github.com/ysugimoto/falco/v2/linter"
	lcontext "github.com/ysugimoto/falco/v2/linter/context"
	"github.com/ysugimoto/falco/v2/parser"
)

type concCase struct {
	VCL      string  `json:"vcl"`
	Reqs     []smReq `json:"reqs"`
	Procs    int     `json:"procs"`
	JitterUs int     `json:"jitter_us"`
	Seed     int64   `json:"seed"`
	Actual   bool    `json:"actual"` // context.WithActualResponse(true): the simulator answers like the service would
}

// concActual is what a client sees in actual-response mode
type concActual struct {
	Status int    `json:"status"`
	Body   string `json:"body"`
	Path   string `json:"origin_path"` // X-Origin-Path header set by the origin
	XCache string `json:"xcache"`
	Err    string `json:"err,omitempty"`
}

const concBase = 1_000_000_000 // now.sec of acquisition number k is concBase + k

func init() {
	register("conc", func(args string) string {
		var c concCase
		if err := json.Unmarshal([]byte(args), &c); err != nil {
			return "badreq " + err.Error()
		}
		if c.Procs > 0 {
			defer runtime.GOMAXPROCS(runtime.GOMAXPROCS(c.Procs))
		}
		acquisitions := 0 // deliberately unsynchronised: only ever touched under the interpreter's lock
		order := func(ctx *icontext.Context) {
			acquisitions++
			t := time.Unix(concBase+int64(acquisitions), 0)
			ctx.FixedTime = &t
		}
		originReset()
		opts := []icontext.Option{order}
		if c.Actual {
			opts = append(opts, icontext.WithActualResponse(true))
		}
		ip := smNew(c.VCL, opts...)
		actual := make([]concActual, len(c.Reqs))
		srv := httptest.NewServer(ip)
		defer srv.Close()
		rng := rand.New(rand.NewSource(c.Seed))
		delays := make([]time.Duration, len(c.Reqs))
		for i := range delays {
			if c.JitterUs > 0 {
				delays[i] = time.Duration(rng.Intn(c.JitterUs)) * time.Microsecond
			}
		}
		res := make([]smRes, len(c.Reqs))
		seq := make([]int, len(c.Reqs))
		var wg sync.WaitGroup
		start := make(chan struct{})
		for i := range c.Reqs {
			wg.Add(1)
			go func(i int) {
				defer wg.Done()
				<-start
				rq := c.Reqs[i]
				time.Sleep(time.Duration(rq.StartMs)*time.Millisecond + delays[i])
				req, err := http.NewRequest(http.MethodGet, srv.URL+rq.URL, nil)
				if err != nil {
					res[i].Panic = err.Error()
					return
				}
				req.Host = "localhost"
				for k, v := range rq.Hdr {
					req.Header.Set(k, v)
				}
				resp, err := http.DefaultTransport.RoundTrip(req)
				if err != nil {
					res[i].Panic = "transport: " + err.Error()
					actual[i].Err = err.Error()
					return
				}
				body, _ := io.ReadAll(resp.Body)
				resp.Body.Close()
				if c.Actual {
					actual[i] = concActual{Status: resp.StatusCode, Body: string(body),
						Path: resp.Header.Get("X-Origin-Path"), XCache: resp.Header.Get("X-Cache")}
					return
				}
				res[i] = smProject(resp.StatusCode, body)
				for _, m := range res[i].Logs {
					if strings.HasPrefix(m, "seq:") {
						if n, err := strconv.ParseInt(strings.TrimSpace(m[4:]), 10, 64); err == nil {
							seq[i] = int(n - concBase)
						}
					}
				}
			}(i)
		}
		close(start)
		wg.Wait()
		out := struct {
			smFinal
			Seq    []int          `json:"seq"`
			Origin map[string]int `json:"origin_by_url"`
			Actual []concActual   `json:"actual,omitempty"`
		}{Seq: seq, Origin: originCounts()}
		if c.Actual {
			out.Actual = actual
		}
		out.Res = res
		smSnapshot(ip, &out.smFinal)
		b, _ := json.Marshal(out)
		return string(b)
	})

	// conc2 {"vcl":…, "reqs":[…]}: TWO interpreters in one process, each behind its own listener, the requests
	// alternate between them and are sent at the same time. Nothing but package-level state is shared.
	register("conc2", func(args string) string {
		var c concCase
		if err := json.Unmarshal([]byte(args), &c); err != nil {
			return "badreq " + err.Error()
		}
		if c.Procs > 0 {
			defer runtime.GOMAXPROCS(runtime.GOMAXPROCS(c.Procs))
		}
		srvs := []*httptest.Server{httptest.NewServer(smNew(c.VCL)), httptest.NewServer(smNew(c.VCL))}
		defer srvs[0].Close()
		defer srvs[1].Close()
		res := make([]smRes, len(c.Reqs))
		var wg sync.WaitGroup
		start := make(chan struct{})
		for i := range c.Reqs {
			wg.Add(1)
			go func(i int) {
				defer wg.Done()
				<-start
				req, err := http.NewRequest(http.MethodGet, srvs[i%2].URL+c.Reqs[i].URL, nil)
				if err != nil {
					res[i].Panic = err.Error()
					return
				}
				req.Host = "localhost"
				resp, err := http.DefaultTransport.RoundTrip(req)
				if err != nil {
					res[i].Panic = "transport: " + err.Error()
					return
				}
				body, _ := io.ReadAll(resp.Body)
				resp.Body.Close()
				res[i] = smProject(resp.StatusCode, body)
			}(i)
		}
		close(start)
		wg.Wait()
		b, _ := json.Marshal(map[string]any{"res": res})
		return string(b)
	})

	register("conc-lint", func(args string) string {
		var c concCase
		if err := json.Unmarshal([]byte(args), &c); err != nil {
			return "badreq " + err.Error()
		}
		if c.Procs > 0 {
			defer runtime.GOMAXPROCS(runtime.GOMAXPROCS(c.Procs))
		}
		vcl, err := parser.New(lexer.NewFromString(c.VCL, lexer.WithFile("main.vcl"))).ParseVCL()
		if err != nil {
			return "parseerr " + strings.SplitN(err.Error(), "\n", 2)[0]
		}
		l := linter.New(&config.LinterConfig{})
		l.Lint(vcl, lcontext.New())
		msgs := []string{}
		for _, e := range l.Errors {
			msgs = append(msgs, e.Message)
		}
		var buf bytes.Buffer
		json.NewEncoder(&buf).Encode(map[string]any{"messages": msgs}) // nolint:errcheck
		return strings.TrimSpace(buf.String())
	})
}
