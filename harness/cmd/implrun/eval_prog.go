package main

// implrun evalprog: "<hex main VCL | -> <hex snippet> <var,var,...|->"
// The snippet (a statement list: declare / set / if / switch / log ...) is executed by
// Interpreter.ProcessBlockStatement in vcl_recv scope of a real interpreter; afterwards the listed
// variables are read back.   reply:  ok|err  name=<value> ...    (value text as in evalcell)

import (
	"encoding/hex"
	"fmt"
	"strings"

	icontext "github.com/ysugimoto/falco/v2/interpreter/context"
	pcre "go.elara.ws/pcre"
)

func init() { register("evalprog", evalProg) }

func evalProg(args string) string {
	f := strings.Fields(args)
	if len(f) != 3 && len(f) != 4 {
		return "badreq"
	}
	main := cellBackends
	if f[0] != "-" {
		main += unhex(f[0])
	}
	ip, err := evNewInterp(main, icontext.RecvScope)
	if err != nil {
		return "initerr " + strings.SplitN(err.Error(), "\n", 2)[0]
	}
	stmts, err := evParseSnippet(unhex(f[1]))
	if err != nil {
		return "parseerr " + strings.SplitN(err.Error(), "\n", 2)[0]
	}
	st := "ok"
	if err := evRun(ip, stmts); err != nil {
		st = "err"
	}
	var out []string
	if f[2] != "-" {
		for _, name := range strings.Split(f[2], ",") {
			v, err := evVar(ip, name)
			if err != nil {
				out = append(out, name+"=?")
				continue
			}
			out = append(out, name+"="+showVal(v))
		}
	}
	// optional 4th field: <hex pattern>:<hex subject>,... - the answers of Go's PCRE (oracle for Model/ReGroup.v)
	if len(f) == 4 {
		for k, ps := range strings.Split(f[3], ",") {
			ph, sh, _ := strings.Cut(ps, ":")
			re, err := pcre.Compile(unhex(ph))
			if err != nil {
				out = append(out, fmt.Sprintf("re%d=e", k))
				continue
			}
			m := re.FindStringSubmatch(unhex(sh))
			if len(m) == 0 {
				out = append(out, fmt.Sprintf("re%d=x", k))
				continue
			}
			var hs []string
			for _, g := range m {
				hs = append(hs, hex.EncodeToString([]byte(g)))
			}
			out = append(out, fmt.Sprintf("re%d=%d:%s", k, len(m), strings.Join(hs, ";")))
		}
	}
	return st + " " + strings.Join(out, " ")
}
