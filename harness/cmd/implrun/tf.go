package main

// implrun tf / unescape : VCL generated from Terraform plan JSON (C20).
//
//	tf <hex of plan JSON>
//	   terraform.ParseStdin -> per service: TerraformFetcher + snippet.Fetch + EmbedSnippets(false).
//	   reply: "err <msg>" or, per service, space separated records
//	     svc <namehex>
//	     item <namehex> <datahex> <projection>      one per embedded item (dictionary, acl, backend, director, init snippet)
//	     scoped <scope> <namehex> <datahex> <sproj> <priority> <extra>
//	                                                one per scoped snippet in the order of insertion (header rules, response
//	                                                objects, VCL snippets); sproj = perr | ok:<hash of the comment-erased
//	                                                statement trees>; extra = - | ro(<internal status>,<status>,<ctypehex>,<contenthex>)
//	                                                for the error-scope part of a response object
//	     include <namehex> <datahex> <sproj> <priority>   one per snippet of type none (by name)
//	vclproj <hex>    ParseSnippetVCL of the text -> perr | ok:<hash>  (the same projection as sproj)
//	   projection (no blanks) = perr | (table,<name>,<type|_>,(<keyhex>,<kind>,<valhex>)...) | (acl,<name>,(<0|1>,<iphex>,<mask|_>)...)
//	              | (backend,<name>,(<prop>,<kind>,<valhex>)...) | (director,<name>,<type>,(b,<backend>)|(p,<key>,<val>)...) ... one group per declaration
//	unescape <hex>   the literal between double quotes, through the real lexer + parser:
//	                 set req.http.X = "<literal>";  ->  ok <hex of the decoded value> | perr
import (
	"bytes"
	"crypto/sha256"
	"reflect"
	"encoding/hex"
	"fmt"
	"os"
	"sort"
	"strings"

	"github.com/ysugimoto/falco/v2/ast"
	"github.com/ysugimoto/falco/v2/lexer"
	"github.com/ysugimoto/falco/v2/parser"
	"github.com/ysugimoto/falco/v2/snippet"
	"github.com/ysugimoto/falco/v2/snippet/terraform"
)

func tfHex(s string) string {
	if s == "" {
		return "-"
	}
	return hex.EncodeToString([]byte(s))
}

func tfExprString(e ast.Expression) (string, string) {
	switch t := e.(type) {
	case *ast.String:
		return "str", t.Value
	case *ast.Ident:
		return "ident", t.Value
	case *ast.IP:
		return "ip", t.Value
	case *ast.Integer:
		return "int", fmt.Sprint(t.Value)
	case *ast.Boolean:
		return "bool", fmt.Sprint(t.Value)
	case *ast.RTime:
		return "rtime", t.Value
	case *ast.Float:
		return "float", fmt.Sprint(t.Value)
	case nil:
		return "nil", ""
	}
	return "other", e.String()
}

func tfProject(data string) string {
	vcl, err := parser.New(lexer.NewFromString(data)).ParseVCL()
	if err != nil {
		return "perr"
	}
	var out []string
	for _, st := range vcl.Statements {
		switch t := st.(type) {
		case *ast.TableDeclaration:
			vt := "_"
			if t.ValueType != nil {
				vt = t.ValueType.Value
			}
			var items []string
			for _, p := range t.Properties {
				k, v := tfExprString(p.Value)
				items = append(items, fmt.Sprintf("(%s,%s,%s)", tfHex(p.Key.Value), k, tfHex(v)))
			}
			out = append(out, fmt.Sprintf("(table,%s,%s,%s)", tfHex(t.Name.Value), vt, strings.Join(items, "")))
		case *ast.AclDeclaration:
			var items []string
			for _, c := range t.CIDRs {
				neg := "0"
				if c.Inverse != nil && c.Inverse.Value {
					neg = "1"
				}
				mask := "_"
				if c.Mask != nil {
					mask = fmt.Sprint(c.Mask.Value)
				}
				items = append(items, fmt.Sprintf("(%s,%s,%s)", neg, tfHex(c.IP.Value), mask))
			}
			out = append(out, fmt.Sprintf("(acl,%s,%s)", tfHex(t.Name.Value), strings.Join(items, "")))
		case *ast.BackendDeclaration:
			var items []string
			for _, p := range t.Properties {
				k, v := tfExprString(p.Value)
				items = append(items, fmt.Sprintf("(%s,%s,%s)", tfHex(p.Key.Value), k, tfHex(v)))
			}
			out = append(out, fmt.Sprintf("(backend,%s,%s)", tfHex(t.Name.Value), strings.Join(items, "")))
		case *ast.DirectorDeclaration:
			var items []string
			for _, p := range t.Properties {
				switch q := p.(type) {
				case *ast.DirectorBackendObject:
					for _, v := range q.Values {
						if v.Key.Value == "backend" {
							_, s := tfExprString(v.Value)
							items = append(items, "(b,"+tfHex(s)+")")
						}
					}
				case *ast.DirectorProperty:
					_, s := tfExprString(q.Value)
					items = append(items, fmt.Sprintf("(p,%s,%s)", tfHex(q.Key.Value), tfHex(s)))
				}
			}
			out = append(out, fmt.Sprintf("(director,%s,%s,%s)", tfHex(t.Name.Value), tfHex(t.DirectorType.Value), strings.Join(items, "")))
		default:
			out = append(out, "(other)")
		}
	}
	if len(out) == 0 {
		return "(empty)"
	}
	return strings.Join(out, "")
}

// tfStmtProj: the statements of a snippet, comment-erased and position-free (inertDump), hashed
func tfStmtProj(data string) string {
	stmts, err := parser.New(lexer.NewFromString(data)).ParseSnippetVCL()
	if err != nil {
		return "perr"
	}
	var b strings.Builder
	for _, st := range stmts {
		inertDump(&b, reflect.ValueOf(st), 0)
		b.WriteString(";")
	}
	sum := sha256.Sum256([]byte(b.String()))
	return fmt.Sprintf("ok:%d:%s", len(stmts), hex.EncodeToString(sum[:8]))
}

// tfResponseObject: what the error-scope snippet of a response object says
func tfResponseObject(data string) string {
	stmts, err := parser.New(lexer.NewFromString(data)).ParseSnippetVCL()
	if err != nil || len(stmts) != 1 {
		return "-"
	}
	ifs, ok := stmts[0].(*ast.IfStatement)
	if !ok || len(ifs.Another) != 0 || ifs.Alternative != nil {
		return "-"
	}
	code := "?"
	if c, ok := ifs.Condition.(*ast.InfixExpression); ok && c.Operator == "==" {
		if l, ok := c.Left.(*ast.Ident); ok && l.Value == "obj.status" {
			if r, ok := c.Right.(*ast.Integer); ok {
				code = fmt.Sprint(r.Value)
			}
		}
	}
	status, ctype, content := "?", "?", "?"
	shape := ""
	for _, st := range ifs.Consequence.Statements {
		switch t := st.(type) {
		case *ast.SetStatement:
			shape += "s"
			if t.Operator == nil || t.Operator.Operator != "=" {
				return "-"
			}
			switch t.Ident.Value {
			case "obj.status":
				if v, ok := t.Value.(*ast.Integer); ok {
					status = fmt.Sprint(v.Value)
				}
			case "obj.http.Content-Type":
				if v, ok := t.Value.(*ast.String); ok {
					ctype = tfHex(v.Value)
				}
			default:
				return "-"
			}
		case *ast.SyntheticStatement:
			shape += "y"
			if v, ok := t.Value.(*ast.String); ok {
				content = tfHex(v.Value)
			}
		case *ast.ReturnStatement:
			shape += "r"
		default:
			return "-"
		}
	}
	if shape != "ssyr" {
		return "-"
	}
	return fmt.Sprintf("ro(%s,%s,%s,%s)", code, status, ctype, content)
}

func vclprojHandler(args string) string {
	arg := strings.TrimSpace(args)
	if arg == "-" {
		arg = ""
	}
	buf, err := hex.DecodeString(arg)
	if err != nil {
		return "badreq"
	}
	return tfStmtProj(string(buf))
}

func tfHandler(args string) string {
	buf, err := hex.DecodeString(strings.TrimSpace(args))
	if err != nil {
		return "badreq"
	}
	// snippet.Fetch prints progress on stdout, which carries the line protocol here
	saved := os.Stdout
	null, _ := os.OpenFile(os.DevNull, os.O_WRONLY, 0)
	os.Stdout = null
	defer func() {
		os.Stdout = saved
		null.Close()
	}()

	services, err := terraform.ParseStdin(bytes.NewReader(buf))
	if err != nil {
		return "err parse"
	}
	var out []string
	for _, svc := range services {
		f := terraform.NewTerraformFetcher(services)
		f.SetName(svc.Name)
		snips, err := snippet.Fetch(f)
		if err != nil {
			return "err fetch"
		}
		items, err := snips.EmbedSnippets(false)
		if err != nil {
			out = append(out, "svc "+tfHex(svc.Name), "err-embed")
			continue
		}
		out = append(out, "svc "+tfHex(svc.Name))
		for _, it := range items {
			out = append(out, fmt.Sprintf("item %s %s %s", tfHex(it.Name), tfHex(it.Data), tfProject(it.Data)))
		}
		var scopes []string
		for sc := range snips.ScopedSnippets {
			scopes = append(scopes, sc)
		}
		sort.Strings(scopes)
		for _, sc := range scopes {
			if sc == "init" {
				continue
			}
			for _, it := range snips.ScopedSnippets[sc] {
				extra := "-"
				if sc == "error" && strings.HasPrefix(it.Name, "Remote.ResponseObject:") {
					extra = tfResponseObject(it.Data)
				}
				out = append(out, fmt.Sprintf("scoped %s %s %s %s %d %s", sc, tfHex(it.Name), tfHex(it.Data), tfStmtProj(it.Data), it.Priority, extra))
			}
		}
		var incl []string
		for n := range snips.IncludeSnippets {
			incl = append(incl, n)
		}
		sort.Strings(incl)
		for _, n := range incl {
			it := snips.IncludeSnippets[n]
			out = append(out, fmt.Sprintf("include %s %s %s %d", tfHex(n), tfHex(it.Data), tfStmtProj(it.Data), it.Priority))
		}
	}
	return strings.Join(out, " ")
}

func unescapeHandler(args string) string {
	arg := strings.TrimSpace(args)
	if arg == "-" {
		arg = ""
	}
	lit, err := hex.DecodeString(arg)
	if err != nil {
		return "badreq"
	}
	src := "set req.http.X = \"" + string(lit) + "\";"
	stmts, err := parser.New(lexer.NewFromString(src)).ParseSnippetVCL()
	if err != nil || len(stmts) != 1 {
		return "perr"
	}
	set, ok := stmts[0].(*ast.SetStatement)
	if !ok {
		return "perr"
	}
	s, ok := set.Value.(*ast.String)
	if !ok {
		return "other"
	}
	return "ok " + tfHex(s.Value)
}

func init() {
	register("tf", tfHandler)
	register("unescape", unescapeHandler)
	register("vclproj", vclprojHandler)
}
