package main

// Projection of a parsed program onto what formatting must preserve (C03): every
// declaration, statement, operator, identifier, argument and literal (decoded value AND, for
// numbers, the source literal).  Positions, *ast.Meta, comments and layout are not projected.
//
// faProgram(stmts, conf, expected):
//   expected = true  : the projection of the ORIGINAL tree with exactly the documented rewrites
//                      of the configuration applied (explicit `+`, else-if spelling, return
//                      parentheses, remove->unset, trailing table comma);
//   expected = false : the projection of the tree of the formatted text as it is.
// With sort_declaration / sort_declaration_property both sides are put into one canonical order
// (the order itself is checked by the token correspondence), so they are compared as multisets.

import (
	"math"
	"sort"

	"github.com/ysugimoto/falco/v2/ast"
	"github.com/ysugimoto/falco/v2/config"
)

type faCtx struct {
	c          *config.FormatConfig
	expected   bool
	functional bool
}

func (x *faCtx) expr(e ast.Expression) string {
	switch t := e.(type) {
	case nil:
		return "_"
	case *ast.Ident:
		if t == nil {
			return "_"
		}
		return sx("ident", hx(t.Value))
	case *ast.String:
		if t == nil {
			return "_"
		}
		return sx("str", hx(t.Value))
	case *ast.IP:
		return sx("ip", hx(t.Value))
	case *ast.RTime:
		return sx("rtime", hx(t.Value))
	case *ast.Boolean:
		return sx("bool", b01(t.Value))
	case *ast.Integer:
		return sx("int", u64(uint64(t.Value)), hx(t.Token.Literal))
	case *ast.Float:
		return sx("float", u64(math.Float64bits(t.Value)), hx(t.Token.Literal))
	case *ast.GroupedExpression:
		return sx("group", x.expr(t.Right))
	case *ast.InfixExpression:
		explicit := t.Explicit
		if x.expected && t.Operator == "+" {
			// explicit_string_concat=true makes every concatenation explicit; =false makes it
			// juxtaposed wherever the grammar can read the right operand as juxtaposed
			// (it starts with an identifier, a string or an if expression)
			explicit = x.c.ExplicitStringConcat || !faJuxtaposable(t.Right)
		}
		return sx("infix", x.expr(t.Left), hx(t.Operator), b01(explicit), x.expr(t.Right))
	case *ast.PostfixExpression:
		return sx("postfix", x.expr(t.Left), hx(t.Operator))
	case *ast.PrefixExpression:
		return sx("prefix", hx(t.Operator), x.expr(t.Right))
	case *ast.IfExpression:
		return sx("ifexp", x.expr(t.Condition), x.expr(t.Consequence), x.expr(t.Alternative))
	case *ast.FunctionCallExpression:
		return sx("call", append([]string{hx(t.Function.Value)}, x.exprs(t.Arguments)...)...)
	case *ast.BackendProbeObject:
		return sx("probe", x.bprops(t.Values)...)
	case *ast.DirectorBackendObject:
		return sx("dbackend", x.dprops(t.Values)...)
	case *ast.DirectorProperty:
		return sx("dp", hx(t.Key.Value), x.expr(t.Value))
	default:
		return "(unknownexpr)"
	}
}

func (x *faCtx) exprs(es []ast.Expression) []string {
	out := make([]string, 0, len(es))
	for _, e := range es {
		out = append(out, x.expr(e))
	}
	return out
}

func (x *faCtx) propOrder(ps []string) []string {
	if x.c.SortDeclarationProperty {
		sort.Strings(ps)
	}
	return ps
}

func (x *faCtx) bprops(ps []*ast.BackendProperty) []string {
	var out []string
	for _, p := range ps {
		out = append(out, sx("bp", hx(p.Key.Value), x.expr(p.Value)))
	}
	return x.propOrder(out)
}

func (x *faCtx) dprops(ps []*ast.DirectorProperty) []string {
	var out []string
	for _, p := range ps {
		out = append(out, sx("dp", hx(p.Key.Value), x.expr(p.Value)))
	}
	return x.propOrder(out)
}

func (x *faCtx) stmts(ss []ast.Statement) string {
	out := make([]string, 0, len(ss))
	for _, s := range ss {
		out = append(out, x.stmt(s))
	}
	return lst(out)
}

func (x *faCtx) block(b *ast.BlockStatement) string {
	if b == nil {
		return "_"
	}
	return x.stmts(b.Statements)
}

func (x *faCtx) ifs(t *ast.IfStatement, another bool) string {
	var an []string
	for _, a := range t.Another {
		an = append(an, x.ifs(a, true))
	}
	alt := "_"
	if t.Alternative != nil {
		alt = x.block(t.Alternative.Consequence)
	}
	kw := t.Keyword
	if x.expected && another && x.c.ElseIf {
		kw = "else if"
	}
	return sx("ifs", hx(kw), x.expr(t.Condition), x.block(t.Consequence), lst(an), alt)
}

func (x *faCtx) cas(t *ast.CaseStatement) string {
	test := "_"
	if t.Test != nil {
		test = sx("test", hx(t.Test.Operator), x.expr(t.Test.Right))
	}
	return sx("cas", test, x.stmts(t.Statements), b01(t.Fallthrough))
}

func (x *faCtx) stmt(s ast.Statement) string {
	switch t := s.(type) {
	case *ast.AddStatement:
		return sx("add", hx(t.Ident.Value), hx(t.Operator.Operator), x.expr(t.Value))
	case *ast.SetStatement:
		return sx("set", hx(t.Ident.Value), hx(t.Operator.Operator), x.expr(t.Value))
	case *ast.BlockStatement:
		return sx("block", x.stmts(t.Statements))
	case *ast.BreakStatement:
		return "(break)"
	case *ast.EsiStatement:
		return "(esi)"
	case *ast.FallthroughStatement:
		return "(fallthrough)"
	case *ast.RestartStatement:
		return "(restart)"
	case *ast.CallStatement:
		return sx("callstmt", append([]string{hx(t.Subroutine.Value)}, x.exprs(t.Arguments)...)...)
	case *ast.DeclareStatement:
		return sx("declare", hx(t.Name.Value), hx(t.ValueType.Value), x.expr(t.Value))
	case *ast.ErrorStatement:
		return sx("error", x.expr(t.Code), x.expr(t.Argument))
	case *ast.FunctionCallStatement:
		return sx("funcall", append([]string{hx(t.Function.Value)}, x.exprs(t.Arguments)...)...)
	case *ast.GotoStatement:
		return sx("goto", hx(t.Destination.Value))
	case *ast.GotoDestinationStatement:
		return sx("gotodest", hx(t.Name.Value))
	case *ast.IfStatement:
		return sx("if", x.ifs(t, false))
	case *ast.ImportStatement:
		return sx("import", hx(t.Name.Value))
	case *ast.IncludeStatement:
		return sx("include", hx(t.Module.Value))
	case *ast.LogStatement:
		return sx("log", x.expr(t.Value))
	case *ast.RemoveStatement:
		if x.expected && x.c.ShouldUseUnset {
			return sx("unset", hx(t.Ident.Value))
		}
		return sx("remove", hx(t.Ident.Value))
	case *ast.UnsetStatement:
		return sx("unset", hx(t.Ident.Value))
	case *ast.ReturnStatement:
		paren := t.HasParenthesis
		if x.expected && t.ReturnExpression != nil {
			// parentheses are printed when the option asks for them (never in a functional
			// subroutine); they stay when the returned expression starts with a parenthesis
			paren = (x.c.ReturnStatementParenthesis && !x.functional) || faStartsWithGroup(t.ReturnExpression)
		}
		return sx("return", b01(paren), x.expr(t.ReturnExpression))
	case *ast.SwitchStatement:
		var cs []string
		for _, c := range t.Cases {
			cs = append(cs, x.cas(c))
		}
		return sx("switch", x.expr(t.Control.Expression), lst(cs), u64(uint64(int64(t.Default))))
	case *ast.SyntheticStatement:
		return sx("synthetic", x.expr(t.Value))
	case *ast.SyntheticBase64Statement:
		return sx("synthetic64", x.expr(t.Value))
	case *ast.AclDeclaration:
		parts := []string{hx(t.Name.Value)}
		for _, c := range t.CIDRs {
			inv, mask := "0", "_"
			if c.Inverse != nil {
				inv = b01(c.Inverse.Value)
			}
			if c.Mask != nil {
				mask = sx("m", u64(uint64(c.Mask.Value)))
			}
			parts = append(parts, sx("cidr", inv, hx(c.IP.Value), mask))
		}
		return sx("acl", parts...)
	case *ast.BackendDeclaration:
		return sx("backend", append([]string{hx(t.Name.Value)}, x.bprops(t.Properties)...)...)
	case *ast.DirectorDeclaration:
		return sx("director", append([]string{hx(t.Name.Value), hx(t.DirectorType.Value)}, x.propOrder(x.exprs(t.Properties))...)...)
	case *ast.PenaltyboxDeclaration:
		return sx("penaltybox", hx(t.Name.Value))
	case *ast.RatecounterDeclaration:
		return sx("ratecounter", hx(t.Name.Value))
	case *ast.SubroutineDeclaration:
		var ps []string
		for _, p := range t.Parameters {
			ps = append(ps, sx("p", hx(p.Type.Value), hx(p.Name.Value)))
		}
		ret := "_"
		old := x.functional
		if t.ReturnType != nil {
			ret = hx(t.ReturnType.Value)
			x.functional = true
		}
		r := sx("sub", hx(t.Name.Value), lst(ps), ret, x.block(t.Block))
		x.functional = old
		return r
	case *ast.TableDeclaration:
		ty := "_"
		if t.ValueType != nil {
			ty = hx(t.ValueType.Value)
		}
		var ps []string
		for _, p := range t.Properties {
			comma := p.HasComma
			if x.expected {
				comma = true
			}
			ps = append(ps, sx("tp", hx(p.Key.Value), x.expr(p.Value), b01(comma)))
		}
		return sx("table", append([]string{hx(t.Name.Value), ty}, x.propOrder(ps)...)...)
	default:
		return "(unknownstmt)"
	}
}

func faProgram(ss []ast.Statement, c *config.FormatConfig, expected bool) string {
	x := &faCtx{c: c, expected: expected}
	out := make([]string, 0, len(ss))
	for _, s := range ss {
		out = append(out, x.stmt(s))
	}
	if c.SortDeclaration {
		sort.Strings(out)
	}
	return lst(out)
}

// first token of the expression is IDENT / STRING / OPEN_LONG_STRING / IF (the infix
// registrations of parser.registerExpressionParsers that build an implicit concatenation)
func faJuxtaposable(e ast.Expression) bool {
	switch t := e.(type) {
	case *ast.Ident, *ast.String, *ast.IfExpression, *ast.FunctionCallExpression:
		return true
	case *ast.InfixExpression:
		return faJuxtaposable(t.Left)
	case *ast.PostfixExpression:
		return faJuxtaposable(t.Left)
	}
	return false
}

func faStartsWithGroup(e ast.Expression) bool {
	switch t := e.(type) {
	case *ast.GroupedExpression:
		return true
	case *ast.InfixExpression:
		return faStartsWithGroup(t.Left)
	case *ast.PostfixExpression:
		return faStartsWithGroup(t.Left)
	}
	return false
}
