package main

// implrun ast9 / lex9 / simulate  (C09)
//   ast9 <hex source>      -> "ok <comment-erased AST dump>" | "parseerr"
//   lex9 <hex source>      -> token stream for Model/Decor.v:  s<hash> significant, c ordinary comment,
//                             a<hash> annotation comment, l line feed        (space separated)
//   simulate <hex source>  -> one GET request through interpreter.ServeHTTP with a loopback backend
//                             (the text __PORT__ in the source is replaced by the backend's port);
//                             reply: canonical JSON of the process report without file/line/position,
//                             timings and volatile headers

import (
	"bytes"
	"encoding/json"
	"fmt"
	"hash/fnv"
	"net"
	"net/http"
	"net/http/httptest"
	"net/url"
	"os"
	"reflect"
	"runtime/debug"
	"sort"
	"strconv"
	"strings"
	"sync"

	"github.com/ysugimoto/falco/v2/ast"
	"github.com/ysugimoto/falco/v2/interpreter"
	icontext "github.com/ysugimoto/falco/v2/interpreter/context"
	"github.com/ysugimoto/falco/v2/lexer"
	"github.com/ysugimoto/falco/v2/parser"
	"github.com/ysugimoto/falco/v2/resolver"
	"github.com/ysugimoto/falco/v2/token"
)

var (
	inertMetaType     = reflect.TypeOf((*ast.Meta)(nil))
	inertCommentsType = reflect.TypeOf(ast.Comments{})
	inertTokenType    = reflect.TypeOf(token.Token{})
)

func inertDump(b *strings.Builder, v reflect.Value, depth int) {
	if depth > 200 {
		b.WriteString("<deep>")
		return
	}
	switch v.Kind() {
	case reflect.Ptr, reflect.Interface:
		if v.IsNil() {
			b.WriteString("nil")
			return
		}
		inertDump(b, v.Elem(), depth+1)
	case reflect.Struct:
		t := v.Type()
		b.WriteString("(" + t.Name())
		for i := 0; i < t.NumField(); i++ {
			f := t.Field(i)
			if f.Type == inertCommentsType || f.Type == inertTokenType || !f.IsExported() {
				continue
			}
			if f.Type == inertMetaType {
				// of the node's meta only the kind and spelling of its own token is kept
				if !v.Field(i).IsNil() {
					m := v.Field(i).Interface().(*ast.Meta)
					b.WriteString(" tok=" + string(m.Token.Type) + ":" + strconv.Quote(m.Token.Literal))
				}
				continue
			}
			b.WriteString(" " + f.Name + "=")
			inertDump(b, v.Field(i), depth+1)
		}
		b.WriteString(")")
	case reflect.Slice, reflect.Array:
		if v.Type() == inertCommentsType {
			b.WriteString("[]")
			return
		}
		b.WriteString("[")
		for i := 0; i < v.Len(); i++ {
			if i > 0 {
				b.WriteString(" ")
			}
			inertDump(b, v.Index(i), depth+1)
		}
		b.WriteString("]")
	case reflect.Map:
		keys := v.MapKeys()
		sort.Slice(keys, func(i, j int) bool { return fmt.Sprint(keys[i]) < fmt.Sprint(keys[j]) })
		b.WriteString("{")
		for _, k := range keys {
			b.WriteString(fmt.Sprint(k) + ":")
			inertDump(b, v.MapIndex(k), depth+1)
			b.WriteString(" ")
		}
		b.WriteString("}")
	case reflect.String:
		b.WriteString(strconv.Quote(v.String()))
	default:
		b.WriteString(fmt.Sprint(v.Interface()))
	}
}

func inertHash(s string) string {
	h := fnv.New32a()
	h.Write([]byte(s))
	return strconv.FormatUint(uint64(h.Sum32()), 36)
}

// a comment that carries meaning for falco: scope / plugin annotations, ignore directives, Fastly macros
func inertIsAnnotation(lit string) bool {
	l := strings.TrimLeft(lit, " */#")
	return strings.HasPrefix(l, "@") || strings.Contains(lit, "falco-ignore") || strings.HasPrefix(lit, "#FASTLY")
}

type inertQuiet struct{}

func (inertQuiet) Run(ast.Node) interpreter.DebugState { return interpreter.DebugPass }
func (inertQuiet) Message(string)                     {}
func (inertQuiet) Log(*ast.LogStatement, string)      {}

var (
	inertBackendOnce sync.Once
	inertBackendPort string
)

func inertBackend() string {
	inertBackendOnce.Do(func() {
		handler := http.HandlerFunc(func(w http.ResponseWriter, r *http.Request) {
			w.Header().Set("Content-Type", "text/plain")
			w.Header().Set("X-Backend-Path", r.URL.Path)
			w.Header().Set("X-Backend-Host", r.Host)
			w.Header().Set("Cache-Control", "max-age=60")
			w.WriteHeader(http.StatusOK)
			w.Write([]byte("OK"))
		})
		srv := httptest.NewUnstartedServer(handler)
		// INERT_BACKEND_PORT: the check fixes the port for all its processes, because the port is part of the
		// program text (a hash director hashes the rendered backend declaration)
		if p := os.Getenv("INERT_BACKEND_PORT"); p != "" {
			if l, err := net.Listen("tcp", "127.0.0.1:"+p); err == nil {
				srv.Listener.Close()
				srv.Listener = l
			}
		}
		srv.Start()
		u, _ := url.Parse(srv.URL)
		inertBackendPort = u.Port()
	})
	return inertBackendPort
}

var inertVolatile = map[string]bool{"date": true, "x-timer": true, "age": true, "fastly-ff": true, "x-served-by": true,
	"elapsed_time_us": true, "elapsed_time_ms": true, "file": true, "line": true, "position": true}

func inertScrub(v any) any {
	switch t := v.(type) {
	case map[string]any:
		out := map[string]any{}
		for k, x := range t {
			if inertVolatile[strings.ToLower(k)] {
				continue
			}
			out[k] = inertScrub(x)
		}
		return out
	case []any:
		for i := range t {
			t[i] = inertScrub(t[i])
		}
		return t
	case string:
		return strings.ReplaceAll(t, inertBackendPort, "PORT")
	}
	return v
}

func init() {
	register("ast9", func(args string) string {
		src, err := unhx(args)
		if err != nil {
			return "badreq " + err.Error()
		}
		vcl, err := parser.New(lexer.NewFromString(string(src), lexer.WithFile("main.vcl"))).ParseVCL()
		if err != nil {
			return "parseerr"
		}
		var b strings.Builder
		inertDump(&b, reflect.ValueOf(vcl.Statements), 0)
		return "ok " + b.String()
	})
	register("lex9", func(args string) string {
		src, err := unhx(args)
		if err != nil {
			return "badreq " + err.Error()
		}
		lx := lexer.NewFromString(string(src), lexer.WithFile("main.vcl"))
		var out []string
		for n := 0; n < 1000000; n++ {
			t := lx.NextToken()
			switch t.Type {
			case token.EOF:
				out = append(out, "s"+inertHash("EOF"))
				return strings.Join(out, " ")
			case token.LF:
				out = append(out, "l")
			case token.COMMENT:
				if inertIsAnnotation(t.Literal) {
					// a carriage return at the end of a line comment is a line end, not text
					out = append(out, "a"+inertHash(strings.TrimRight(t.Literal, "\r")))
				} else {
					out = append(out, "c")
				}
			default:
				out = append(out, "s"+inertHash(string(t.Type)+"\x00"+t.Literal))
			}
		}
		return "hang-guard"
	})
	register("simulate", func(args string) string {
		src, err := unhx(args)
		if err != nil {
			return "badreq " + err.Error()
		}
		if os.Getenv("INERT_TRACE") != "" {
			defer func() {
				if r := recover(); r != nil {
					fmt.Fprintf(os.Stderr, "%v\n%s\n", r, debug.Stack())
					panic(r)
				}
			}()
		}
		port := inertBackend()
		vcl := strings.ReplaceAll(string(src), "__PORT__", port)
		ip := interpreter.New(icontext.WithResolver(resolver.NewStaticResolver("main.vcl", vcl)))
		ip.Debugger = inertQuiet{}
		rec := httptest.NewRecorder()
		req := httptest.NewRequest(http.MethodGet, "http://localhost/path/to?x=1&y=two", nil)
		req.Header.Set("User-Agent", "verif")
		req.Header.Set("Cookie", "sid=abc; lang=en")
		req.Header.Set("X-Test", "t1")
		ip.ServeHTTP(rec, req)
		var body any
		raw := rec.Body.Bytes()
		if err := json.Unmarshal(raw, &body); err != nil {
			body = string(bytes.TrimSpace(raw))
		}
		out := map[string]any{"status": rec.Code, "report": inertScrub(body)}
		j, _ := json.Marshal(out)
		return string(j)
	})
}
