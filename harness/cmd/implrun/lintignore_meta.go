package main

// implrun ignore-meta <hex source>
//
// Where did the PARSER attach each comment?  Dumps the parsed program in the S-expression
// format of the extracted C12 model (decl / stmt / sblock / sbranch / scase of Model/Ignore.v)
// with the Leading / Trailing / Infix comments of exactly the nodes linter/ignore.go reads
// (statements, else-if / else branches, case clauses, block statements, subroutines).  The
// diagnostics are left as placeholders "@<k>", k = pre-order number of the node (blocks
// counted), which the check fills from the baseline run.  Each comment is printed as
// "<hex>"@<line>:<position> so that the check can tell where a comment it wrote has landed.
//
// implrun lint-ignore <hex source> [scoped:<scope>:<name>:<hex data> ...]
// is in lintapi.go; the scoped snippets are handed to the linter through context.WithSnippets.

import (
	"fmt"
	"strings"

	"github.com/ysugimoto/falco/v2/ast"
	"github.com/ysugimoto/falco/v2/lexer"
	"github.com/ysugimoto/falco/v2/parser"
)

type metaDump struct{ n int }

func (d *metaDump) next() int { k := d.n; d.n++; return k }

func cmts(cs ast.Comments) string {
	out := make([]string, 0, len(cs))
	for _, c := range cs {
		out = append(out, fmt.Sprintf("%s@%d:%d", hx(c.Value), c.Token.Line, c.Token.Position))
	}
	return "(" + strings.Join(out, " ") + ")"
}

func metaOf(m *ast.Meta) string {
	return "(m " + cmts(m.Leading) + " " + cmts(m.Trailing) + " " + cmts(m.Infix) + ")"
}

func (d *metaDump) block(b *ast.BlockStatement) string {
	k := d.next()
	_ = k
	parts := []string{}
	for _, s := range b.Statements {
		parts = append(parts, d.stmt(s))
	}
	return "(block " + metaOf(b.Meta) + " (" + strings.Join(parts, " ") + "))"
}

func (d *metaDump) stmt(s ast.Statement) string {
	switch t := s.(type) {
	case *ast.IfStatement:
		k := d.next()
		cons := d.block(t.Consequence)
		others := []string{}
		for _, a := range t.Another {
			ka := d.next()
			others = append(others, fmt.Sprintf("(branch %s @P%d %s)", metaOf(a.Meta), ka, d.block(a.Consequence)))
		}
		alt := "_"
		if t.Alternative != nil {
			ka := d.next()
			alt = fmt.Sprintf("(branch %s @P%d %s)", metaOf(t.Alternative.Meta), ka, d.block(t.Alternative.Consequence))
		}
		return fmt.Sprintf("(if %s @P%d %s (%s) %s)", metaOf(t.Meta), k, cons, strings.Join(others, " "), alt)
	case *ast.SwitchStatement:
		k := d.next()
		cases := []string{}
		for _, c := range t.Cases {
			d.next()
			ss := []string{}
			for _, x := range c.Statements {
				ss = append(ss, d.stmt(x))
			}
			cases = append(cases, "(case "+metaOf(c.Meta)+" ("+strings.Join(ss, " ")+"))")
		}
		return fmt.Sprintf("(switch %s @P%d (%s))", metaOf(t.Meta), k, strings.Join(cases, " "))
	default:
		k := d.next()
		return fmt.Sprintf("(simple %s @S%d)", metaOf(s.GetMeta()), k)
	}
}

func ignoreMeta(args string) string {
	src, err := unhx(strings.TrimSpace(args))
	if err != nil {
		return "badrequest"
	}
	vcl, err := parser.New(lexer.NewFromString(string(src), lexer.WithFile("main.vcl"))).ParseVCLOrSnippet()
	if err != nil {
		return "parseerr"
	}
	d := &metaDump{}
	if vcl.IsSnippet {
		parts := []string{}
		for _, s := range vcl.Statements {
			parts = append(parts, d.stmt(s))
		}
		return "snippet (" + strings.Join(parts, " ") + ")"
	}
	parts := []string{}
	for _, s := range vcl.Statements {
		switch t := s.(type) {
		case *ast.SubroutineDeclaration:
			k := d.next()
			parts = append(parts, fmt.Sprintf("(sub %s @S%d %s)", metaOf(t.Meta), k, d.block(t.Block)))
		default:
			k := d.next()
			parts = append(parts, fmt.Sprintf("(other %s @S%d)", metaOf(s.GetMeta()), k))
		}
	}
	return "ok (" + strings.Join(parts, " ") + ")"
}

func init() { register("ignore-meta", ignoreMeta) }
