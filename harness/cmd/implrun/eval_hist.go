package main

// implrun simhist: "<modules> <ops>"   - a LONG history against ONE simulator, with clock jumps
//   modules = as simrun (main first)
//   ops     = op;op;...   op = R<count>:<METHOD>=<hexurl>   <count> requests, the url may contain %d (request number)
//                         op = A<seconds>                  advance the clock of everything that outlives a request
//                                                          (cache objects, rate counter entries, penalty boxes) through the
//                                                          add-only hook Interpreter.VerifAdvanceClock (build tag verif)
// reply: requests=<n> ok=<n> err=<n> maxrestarts=<n> rc=<entries> pb=<entries> cache=<objects>
// A Go panic is reported by implrun as "crash ..."; a fatal error / no progress is seen by the supervisor.

import (
	"encoding/json"
	"fmt"
	"net/http/httptest"
	"strconv"
	"strings"
	"time"

	"github.com/ysugimoto/falco/v2/interpreter"
	icontext "github.com/ysugimoto/falco/v2/interpreter/context"
)

func init() { register("simhist", simHist) }

func simHist(args string) string {
	f := strings.Fields(args)
	if len(f) != 2 {
		return "badreq"
	}
	r := &mapResolver{modules: map[string]string{}}
	for i, m := range strings.Split(f[0], ",") {
		name, hx, _ := strings.Cut(m, "=")
		if i == 0 {
			r.main = name
		}
		src := unhex(hx)
		if strings.Contains(src, "__BACKEND_HOST__") {
			h, p := origin()
			src = strings.ReplaceAll(strings.ReplaceAll(src, "__BACKEND_HOST__", h), "__BACKEND_PORT__", p)
		}
		r.modules[name] = src
	}
	ip := interpreter.New(icontext.WithResolver(r))
	n, ok, bad, maxRestarts := 0, 0, 0, 0
	for _, op := range strings.Split(f[1], ";") {
		if op == "" {
			continue
		}
		if op[0] == 'A' {
			secs, err := strconv.ParseFloat(op[1:], 64)
			if err != nil {
				return "badreq advance"
			}
			ip.VerifAdvanceClock(time.Duration(secs * float64(time.Second)))
			continue
		}
		head, rq, _ := strings.Cut(op[1:], ":")
		count, err := strconv.Atoi(head)
		if err != nil {
			return "badreq count"
		}
		method, hx, _ := strings.Cut(rq, "=")
		url := unhex(hx)
		for k := 0; k < count; k++ {
			u := url
			if strings.Contains(u, "%d") {
				u = strings.ReplaceAll(u, "%d", strconv.Itoa(n))
			}
			rec := httptest.NewRecorder()
			req := httptest.NewRequest(method, "http://localhost"+u, nil)
			ip.ServeHTTP(rec, req)
			n++
			var body struct {
				Restarts int    `json:"restarts"`
				Error    string `json:"error"`
			}
			_ = json.Unmarshal(rec.Body.Bytes(), &body)
			if body.Restarts > maxRestarts {
				maxRestarts = body.Restarts
			}
			if body.Error != "" || rec.Code >= 500 {
				bad++
			} else {
				ok++
			}
		}
	}
	rc := 0
	for _, c := range ip.VerifRateCounters() {
		for _, v := range c.VerifTotals() {
			_ = v
			rc++
		}
	}
	pb := 0
	for _, b := range ip.VerifPenaltyBoxes() {
		pb += len(b.VerifEntries())
	}
	return fmt.Sprintf("requests=%d ok=%d err=%d maxrestarts=%d rc=%d pb=%d cache=%d", n, ok, bad, maxRestarts, rc, pb, len(ip.VerifCache().VerifSnapshot()))
}
