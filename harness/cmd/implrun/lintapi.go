package main

// implrun lint-ignore / lintapi: the real linter driven through the Go API.
//
//	lint-ignore  <hex source>                 -> "parseerr" | "ok <rule>@<line> ..."   (l.Errors in emission order)
//	lintapi      <main path> [<include dir>…] -> "in main=<0|1> inc=<0|1> <rule>:<sev> ..."
//
// lintapi produces the lint_input of Model/Verdict.v exactly the way (*Runner).run obtains it:
// ParseVCLOrSnippet on the main file (parse_error_main), linter.New(conf).Lint with a file
// resolver (FatalError = parse error in an included module), l.Errors with rule and intrinsic
// severity (overrides are applied by the runner, i.e. by the model).  A rule-less diagnostic has
// the rule "-".  Each diagnostic is printed as <rule>:<Severity as the linter prints it>:<base name of Token.File>.

import (
	"fmt"
	"path/filepath"
	"strings"

	"github.com/ysugimoto/falco/v2/ast"
	"github.com/ysugimoto/falco/v2/config"
	"github.com/ysugimoto/falco/v2/lexer"
	"github.com/ysugimoto/falco/v2/linter"
	lcontext "github.com/ysugimoto/falco/v2/linter/context"
	"github.com/ysugimoto/falco/v2/parser"
	"github.com/ysugimoto/falco/v2/resolver"
	"github.com/ysugimoto/falco/v2/snippet"
)

func ruleName(r linter.Rule) string {
	if r == "" {
		return "-"
	}
	return strings.ReplaceAll(string(r), " ", "_")
}

func lintConf() *config.LinterConfig {
	// what config.New leaves in c.Linter when no flag / yaml touches it
	return &config.LinterConfig{IgnoreSubroutines: []string{"vcl_pipe"}}
}

func lintIgnore(args string) string {
	f := strings.Fields(args)
	if len(f) == 0 {
		return "badrequest"
	}
	src, err := unhx(f[0])
	if err != nil {
		return "badrequest"
	}
	// scoped (Fastly managed) snippets: scoped:<scope>:<name>:<hex data>, embedded at the #FASTLY <scope> macro
	var snippets *snippet.Snippets
	mods := map[string]string{}
	for _, a := range f[1:] {
		if strings.HasPrefix(a, "mod:") {
			// an include module: mod:<name>:<hex data>
			p := strings.SplitN(a, ":", 3)
			if len(p) != 3 {
				return "badrequest"
			}
			data, err := unhx(p[2])
			if err != nil {
				return "badrequest"
			}
			mods[p[1]] = string(data)
			continue
		}
		p := strings.SplitN(a, ":", 4)
		if len(p) != 4 || p[0] != "scoped" {
			return "badrequest"
		}
		data, err := unhx(p[3])
		if err != nil {
			return "badrequest"
		}
		if snippets == nil {
			snippets = &snippet.Snippets{ScopedSnippets: map[string][]snippet.Item{}}
		}
		snippets.ScopedSnippets[p[1]] = append(snippets.ScopedSnippets[p[1]], snippet.Item{Name: p[2], Data: string(data)})
	}
	lx := lexer.NewFromString(string(src), lexer.WithFile("main.vcl"))
	vcl, err := parser.New(lx).ParseVCLOrSnippet()
	if err != nil {
		return "parseerr"
	}
	var rslv resolver.Resolver = resolver.NewStaticResolver("main.vcl", string(src))
	if len(mods) > 0 {
		rslv = &lintMapResolver{main: string(src), mods: mods}
	}
	opts := []lcontext.Option{lcontext.WithResolver(rslv)}
	if snippets != nil {
		opts = append(opts, lcontext.WithSnippets(snippets))
	}
	ctx := lcontext.New(opts...)
	lt := linter.New(lintConf())
	lt.Lint(vcl, ctx)
	if lt.FatalError != nil {
		return "fatal"
	}
	out := make([]string, 0, len(lt.Errors))
	for _, e := range lt.Errors {
		if e.Token.File == "" || e.Token.File == "main.vcl" {
			out = append(out, fmt.Sprintf("%s@%d", ruleName(e.Rule), e.Token.Line))
		} else {
			out = append(out, fmt.Sprintf("%s@%s#%d", ruleName(e.Rule), e.Token.File, e.Token.Line))
		}
	}
	return strings.TrimSpace("ok " + strings.Join(out, " "))
}

// lintMapResolver resolves include "<name>"; from the modules given in the request
type lintMapResolver struct {
	main string
	mods map[string]string
}

func (m *lintMapResolver) MainVCL() (*resolver.VCL, error) {
	return &resolver.VCL{Name: "main.vcl", Data: m.main}, nil
}
func (m *lintMapResolver) Resolve(stmt *ast.IncludeStatement) (*resolver.VCL, error) {
	if d, ok := m.mods[stmt.Module.Value]; ok {
		return &resolver.VCL{Name: "mod::" + stmt.Module.Value, Data: d}, nil
	}
	return nil, fmt.Errorf("module %s not found", stmt.Module.Value)
}
func (m *lintMapResolver) Name() string           { return "" }
func (m *lintMapResolver) IncludePaths() []string { return []string{} }

func lintAPI(args string) string {
	f := strings.Fields(args)
	if len(f) == 0 {
		return "badrequest"
	}
	rs, err := resolver.NewFileResolvers(f[0], f[1:])
	if err != nil {
		return "resolvererr " + err.Error()
	}
	rslv := rs[0]
	main, err := rslv.MainVCL()
	if err != nil {
		return "mainerr " + err.Error()
	}
	lx := lexer.NewFromString(main.Data, lexer.WithFile(main.Name))
	vcl, err := parser.New(lx).ParseVCLOrSnippet()
	if err != nil {
		return "in main=1 inc=0"
	}
	ctx := lcontext.New(lcontext.WithResolver(rslv))
	lt := linter.New(lintConf())
	lt.Lint(vcl, ctx)
	inc := "0"
	if lt.FatalError != nil {
		inc = "1"
	}
	out := []string{"in", "main=0", "inc=" + inc}
	for _, e := range lt.Errors {
		out = append(out, fmt.Sprintf("%s:%s:%s", ruleName(e.Rule), e.Severity, filepath.Base(e.Token.File)))
	}
	return strings.Join(out, " ")
}

func init() {
	register("lint-ignore", lintIgnore)
	register("lintapi", lintAPI)
}
