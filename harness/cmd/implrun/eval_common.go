package main

// Shared by the C07/C08 commands (acl, evalcell, evalprog, builtin, simrun): a real falco
// interpreter with a minimal context (main VCL from a static resolver, a GET request, the
// virtual test backend of TestProcessInit), statements executed through the interpreter's own
// ProcessBlockStatement in vcl_recv scope, and local variables read back through
// ProcessExpression(ident) - everything goes through exported API of the interpreter package.

import (
	"fmt"
	"net/http/httptest"

	"github.com/ysugimoto/falco/v2/ast"
	"github.com/ysugimoto/falco/v2/interpreter"
	icontext "github.com/ysugimoto/falco/v2/interpreter/context"
	ihttp "github.com/ysugimoto/falco/v2/interpreter/http"
	"github.com/ysugimoto/falco/v2/interpreter/value"
	"github.com/ysugimoto/falco/v2/lexer"
	"github.com/ysugimoto/falco/v2/parser"
	"github.com/ysugimoto/falco/v2/resolver"
)

func evNewInterp(mainVCL string, scope icontext.Scope) (*interpreter.Interpreter, error) {
	ip := interpreter.New(icontext.WithResolver(resolver.NewStaticResolver("main", mainVCL)))
	req := httptest.NewRequest("GET", "http://localhost/", nil)
	if err := ip.TestProcessInit(ihttp.WrapRequest(req)); err != nil {
		return nil, err
	}
	ip.SetScope(scope)
	return ip, nil
}

// statements of a subroutine body (parsed as `sub p { <src> }` by ParseVCL: ParseSnippetVCL does not
// know the switch statement)
func evParseSnippet(src string) ([]ast.Statement, error) {
	vcl, err := parser.New(lexer.NewFromString("sub p {\n" + src + "\n}")).ParseVCL()
	if err != nil {
		return nil, err
	}
	for _, st := range vcl.Statements {
		if sub, ok := st.(*ast.SubroutineDeclaration); ok {
			return sub.Block.Statements, nil
		}
	}
	return nil, fmt.Errorf("no subroutine parsed")
}

func evRun(ip *interpreter.Interpreter, stmts []ast.Statement) error {
	_, _, _, err := ip.ProcessBlockStatement(stmts, interpreter.DebugPass, false)
	return err
}

func evVar(ip *interpreter.Interpreter, name string) (value.Value, error) {
	return ip.ProcessExpression(&ast.Ident{Value: name, Meta: &ast.Meta{}})
}

func evErr(err error) string {
	if err == nil {
		return ""
	}
	return fmt.Sprintf("%T", err)
}
