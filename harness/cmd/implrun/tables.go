package main

// tables.go - C05 observation commands (tie O of DESIGN 2.2).
//
//	implrun c05
//	  listvars                 every predefined variable of the REAL linter context (tree walk)
//	  listfuncs                every built-in function of the REAL linter context
//	  cell <spec>              lint + execute the one-use program of the cell
//	  show <spec>              same, with the program text and the messages (replays, debugging)
//	  ctxget <name> <op> <mask>  linter/context Get/Set/Unset called directly (tie C of the lookup model)
//
// cell specs (fields separated by ','; <mask> is a 9-bit mask, bit i = scope i of scopeNames):
//
//	V,<name>,get/set/unset,<mask>          predefined variable
//	F,<name>,<signature index>,<mask>      built-in function, one well-typed argument vector
//	S,<kind>,<mask>                        restart error esi synthetic synthetic.base64 return:<action>
//	O,<operator>,<left type>,<right type>,<form>   form: lit local predef
//
// A one-bit mask puts the use into sub vcl_<scope>; a mask with several bits puts it into a user
// subroutine annotated with those scopes and called from each of the vcl_<scope> subroutines.
// Reply: "<lint> <interp> <n programs run>" with lint in {A,R} and interp in
// {ok,type,undef,scope,arity,crash,value,other}.

import (
	"fmt"
	"math/big"
	"math/bits"
	"net"
	"net/http"
	"net/http/httptest"
	"regexp"
	"sort"
	"strconv"
	"strings"

	"github.com/ysugimoto/falco/v2/ast"
	"github.com/ysugimoto/falco/v2/config"
	"github.com/ysugimoto/falco/v2/interpreter"
	ictx "github.com/ysugimoto/falco/v2/interpreter/context"
	ihttp "github.com/ysugimoto/falco/v2/interpreter/http"
	"github.com/ysugimoto/falco/v2/lexer"
	"github.com/ysugimoto/falco/v2/linter"
	lctx "github.com/ysugimoto/falco/v2/linter/context"
	"github.com/ysugimoto/falco/v2/linter/types"
	"github.com/ysugimoto/falco/v2/parser"
	"github.com/ysugimoto/falco/v2/resolver"
)

var tScopeNames = []string{"recv", "hash", "hit", "miss", "pass", "fetch", "error", "deliver", "log"}
var tLintScopes = []int{lctx.RECV, lctx.HASH, lctx.HIT, lctx.MISS, lctx.PASS, lctx.FETCH, lctx.ERROR, lctx.DELIVER, lctx.LOG}
var tInterpScopes = []ictx.Scope{ictx.RecvScope, ictx.HashScope, ictx.HitScope, ictx.MissScope, ictx.PassScope,
	ictx.FetchScope, ictx.ErrorScope, ictx.DeliverScope, ictx.LogScope}

var tPreamble = ""

// the simulator really fetches from its backend when the state machine is run (return cells):
// both backends point at an in-process HTTP server on the loopback interface
func tInitPreamble() {
	if tPreamble != "" {
		return
	}
	port := "8080"
	srv := httptest.NewServer(http.HandlerFunc(func(w http.ResponseWriter, r *http.Request) {
		w.Header().Set("Cache-Control", "max-age=60")
		fmt.Fprint(w, "verif backend")
	}))
	if _, p, err := net.SplitHostPort(strings.TrimPrefix(srv.URL, "http://")); err == nil {
		port = p
	}
	tPreamble = strings.ReplaceAll(tPreambleTmpl, "@PORT@", port)
}

const tPreambleTmpl = `backend be_one { .host = "127.0.0.1"; .port = "@PORT@"; }
backend be_two { .host = "127.0.0.1"; .port = "@PORT@"; }
director dr_one random { { .backend = be_one; .weight = 1; } }
director dr_two random { { .backend = be_two; .weight = 1; } }
acl acl_one { "192.0.2.0"/24; }
table tbl_one { "k": "v" }
table tbl_acl ACL { "k": acl_one }
table tbl_backend BACKEND { "k": be_one }
table tbl_bool BOOL { "k": true }
table tbl_float FLOAT { "k": 1.5 }
table tbl_integer INTEGER { "k": 1 }
table tbl_ip IP { }
table tbl_rtime RTIME { "k": 1s }
ratecounter rc_one { }
ratecounter rc_two { }
penaltybox pb_one { }
`

func init() {
	register("c05", func(args string) string {
		tInitPreamble()
		cmd, rest, _ := strings.Cut(args, " ")
		switch cmd {
		case "listvars":
			return tListVars()
		case "listfuncs":
			return tListFuncs()
		case "cell":
			r := tCell(rest)
			return fmt.Sprintf("%s %s %d", r.lint, r.interp, r.runs)
		case "cellm":
			r := tCell(rest)
			return fmt.Sprintf("%s %s %d | %s", r.lint, r.interp, r.runs, r.interpMsg)
		case "show":
			r := tCell(rest)
			return fmt.Sprintf("%s %s | lint: %s | interp: %s | program: %s", r.lint, r.interp, r.lintMsg, r.interpMsg, r.src)
		case "ctxget":
			return tCtxGet(rest)
		case "vtype":
			return tVType(rest)
		case "wide":
			return tWide(rest)
		}
		return "err unknown request"
	})
}

// ---------------------------------------------------------------- listings

func tWalkVars(prefix string, o *lctx.Object, out *[]string) {
	if o.Value != nil {
		a := o.Value
		*out = append(*out, fmt.Sprintf("%s:%s:%s:%t:%d", prefix, a.Get, a.Set, a.Unset, tCompactLint(a.Scopes)))
	}
	keys := make([]string, 0, len(o.Items))
	for k := range o.Items {
		keys = append(keys, k)
	}
	sort.Strings(keys)
	for _, k := range keys {
		tWalkVars(prefix+"."+k, o.Items[k], out)
	}
}

func tCompactLint(m int) int {
	r := 0
	for i, b := range tLintScopes {
		if m&b != 0 {
			r |= 1 << i
		}
	}
	return r
}

func tListVars() string {
	c := lctx.New()
	var out []string
	keys := make([]string, 0, len(c.Variables))
	for k := range c.Variables {
		keys = append(keys, k)
	}
	sort.Strings(keys)
	for _, k := range keys {
		tWalkVars(k, c.Variables[k], &out)
	}
	return strings.Join(out, ";")
}

func tWalkFuncs(prefix string, o *lctx.FunctionSpec, out *[]string) {
	if o.Value != nil {
		f := o.Value
		var sigs []string
		for _, a := range f.Arguments {
			var ts []string
			for _, t := range a {
				ts = append(ts, t.String())
			}
			sigs = append(sigs, strings.Join(ts, ","))
		}
		*out = append(*out, fmt.Sprintf("%s:%s:%s:%d", prefix, f.Return, strings.Join(sigs, "/"), tCompactLint(f.Scopes)))
	}
	keys := make([]string, 0, len(o.Items))
	for k := range o.Items {
		keys = append(keys, k)
	}
	sort.Strings(keys)
	for _, k := range keys {
		tWalkFuncs(prefix+"."+k, o.Items[k], out)
	}
}

func tListFuncs() string {
	c := lctx.New()
	fs := c.VerifFunctions()
	var out []string
	keys := make([]string, 0, len(fs))
	for k := range fs {
		keys = append(keys, k)
	}
	sort.Strings(keys)
	for _, k := range keys {
		tWalkFuncs(k, fs[k], &out)
	}
	return strings.Join(out, ";")
}

// the declarations of the preamble that change the linter's variable table (linter/context AddBackend,
// AddDirector, AddRatecounter)
func tDeclare(c *lctx.Context) {
	for _, n := range []string{"be_one", "be_two"} {
		_ = c.AddBackend(n, &types.Backend{})
	}
	for _, n := range []string{"dr_one", "dr_two"} {
		_ = c.AddDirector(n, &types.Director{Decl: &ast.DirectorDeclaration{}})
	}
	for _, n := range []string{"rc_one", "rc_two"} {
		_ = c.AddRatecounter(n, &types.Ratecounter{})
	}
}

// direct call of the linter context (no program): "<A|R> <type>"
func tCtxGet(rest string) string {
	f := strings.Fields(rest)
	if len(f) != 3 {
		return "err bad request"
	}
	mask, _ := strconv.Atoi(f[2])
	c := lctx.New()
	tDeclare(c)
	return tCtxOp(c, f[0], f[1], mask)
}

func tCtxOp(c *lctx.Context, name, op string, mask int) string {
	mode := 0
	for i, b := range tLintScopes {
		if mask&(1<<i) != 0 {
			mode |= b
		}
	}
	c.Scope(mode)
	switch op {
	case "get":
		t, err := c.Get(name)
		if err != nil && err != lctx.ErrDeprecated && err != lctx.ErrUncapturedRegexVariable && err != lctx.ErrRegexVariableOverridden {
			return "R " + t.String()
		}
		return "A " + t.String()
	case "set":
		t, err := c.Set(name)
		if err != nil {
			return "R " + t.String()
		}
		return "A " + t.String()
	case "unset":
		if err := c.Unset(name); err != nil {
			return "R NEVER"
		}
		return "A NEVER"
	}
	return "err bad op"
}

// ---------------------------------------------------------------- cells

type tResult struct {
	lint, interp       string
	lintMsg, interpMsg string
	src                string
	runs               int
}

func tMaskScopes(mask int) []int {
	var r []int
	for i := range tScopeNames {
		if mask&(1<<i) != 0 {
			r = append(r, i)
		}
	}
	return r
}

// program around a body for a scope mask
func tProgram(decls, body string, mask int) string {
	var b strings.Builder
	b.WriteString(tPreamble)
	sc := tMaskScopes(mask)
	if len(sc) == 1 {
		n := tScopeNames[sc[0]]
		fmt.Fprintf(&b, "sub vcl_%s {\n#FASTLY %s\n%s%s}\n", n, strings.ToUpper(n), decls, body)
		return b.String()
	}
	var names []string
	for _, s := range sc {
		names = append(names, tScopeNames[s])
	}
	fmt.Fprintf(&b, "# @scope: %s\nsub verif_user {\n%s%s}\n", strings.Join(names, ", "), decls, body)
	for _, n := range names {
		fmt.Fprintf(&b, "sub vcl_%s {\n#FASTLY %s\ncall verif_user;\n}\n", n, strings.ToUpper(n))
	}
	return b.String()
}

// a literal / identifier of the given linter type (used for set values and call arguments)
func tValueOf(t string) (string, bool) {
	switch t {
	case "INTEGER":
		return "1", true
	case "FLOAT":
		return "1.5", true
	case "STRING":
		return `"s"`, true
	case "BOOL":
		return "true", true
	case "RTIME":
		return "1s", true
	case "TIME":
		return "now", true
	case "IP":
		return "client.ip", true
	case "BACKEND", "REQBACKEND":
		return "be_one", true
	case "ACL":
		return "acl_one", true
	case "TABLE":
		return "tbl_one", true
	case "STRING_LIST":
		return `"a", "b"`, true
	case "REGEX":
		return `"a"`, true
	}
	return "", false
}

// ID-typed arguments depend on the function (hand table: function, position -> identifier)
func tIDArg(fn string, pos int, mask int) string {
	switch {
	case strings.HasPrefix(fn, "crypto."):
		return []string{"aes128", "cbc", "nopad"}[pos]
	case fn == "digest.rsa_verify":
		if pos == 0 {
			return "sha256"
		}
		return "standard"
	case fn == "digest.ecdsa_verify":
		switch pos {
		case 0:
			return "sha256"
		case 4:
			return "der"
		}
		return "standard"
	case strings.HasPrefix(fn, "setcookie."):
		// the response object that exists in the scope: beresp in vcl_fetch, resp otherwise
		if mask == 1<<5 {
			return "beresp"
		}
		return "resp"
	case fn == "std.collect":
		return "req.http.X-Verif"
	case fn == "std.count":
		// a header collection
		return "req.headers"
	case strings.HasPrefix(fn, "ratelimit.penaltybox"):
		return "pb_one"
	case fn == "ratelimit.ratecounter_increment":
		return "rc_one"
	case fn == "ratelimit.check_rate":
		if pos == 1 {
			return "rc_one"
		}
		return "pb_one"
	case fn == "ratelimit.check_rates":
		if pos == 1 {
			return "rc_one"
		}
		if pos == 5 {
			return "rc_two"
		}
		return "pb_one"
	case strings.HasPrefix(fn, "header."):
		return "req"
	}
	return "req"
}

var tDeclarable = map[string]bool{"INTEGER": true, "FLOAT": true, "STRING": true, "BOOL": true, "RTIME": true,
	"TIME": true, "IP": true, "BACKEND": true}

func tFuncBody(name string, sigIdx int, mask int) (decls, body string, err error) {
	return tFuncBodyID(name, sigIdx, mask, "")
}

// idArg != "": the FIRST ID-typed argument is that identifier (cells A: the argument drawn from every object family)
func tFuncBodyID(name string, sigIdx int, mask int, idArg string) (decls, body string, err error) {
	c := lctx.New()
	c.Scope(0x111111111)
	fs := c.VerifFunctions()
	parts := strings.Split(name, ".")
	o, ok := fs[parts[0]]
	for _, p := range parts[1:] {
		if !ok {
			break
		}
		o, ok = o.Items[p]
	}
	if !ok || o == nil || o.Value == nil {
		return "", "", fmt.Errorf("unknown function %s", name)
	}
	f := o.Value
	var args []string
	if len(f.Arguments) == 0 {
		if sigIdx != 0 {
			return "", "", fmt.Errorf("no signature %d", sigIdx)
		}
	} else {
		if sigIdx >= len(f.Arguments) {
			return "", "", fmt.Errorf("no signature %d", sigIdx)
		}
		for i, t := range f.Arguments[sigIdx] {
			if t == types.IDType {
				if idArg != "" && idArg != "@" {
					args = append(args, idArg)
					idArg = ""
					continue
				}
				idArg = ""
				args = append(args, tIDArg(name, i, mask))
				continue
			}
			if t == types.TableType {
				// a table whose value type is the one the function looks up
				tbl := "tbl_one"
				switch strings.TrimPrefix(name, "table.lookup_") {
				case "acl", "backend", "bool", "float", "integer", "ip", "rtime":
					tbl = "tbl_" + strings.TrimPrefix(name, "table.lookup_")
				}
				args = append(args, tbl)
				continue
			}
			v, ok := tValueOf(t.String())
			if !ok {
				return "", "", fmt.Errorf("no value of type %s", t)
			}
			if (name == "digest.rsa_verify" || name == "digest.ecdsa_verify") && t == types.StringType {
				// public key (PEM), payload, signature over the SHA-256 of the payload in the base64 flavour of the signature
				v = tDigestArg(name, i, len(f.Arguments[sigIdx]))
			}
			if (name == "ratelimit.check_rate" || name == "ratelimit.check_rates") && t == types.IntegerType {
				// delta, window, limit inside the ranges the function accepts
				v = []string{"1", "10", "100", "1"}[(i+2)%4]
			}
			if strings.HasPrefix(name, "crypto.") && t == types.StringType {
				// key, iv, text: 16 bytes each (hex; the text of the _base64 variants in base64)
				v = `"00112233445566778899aabbccddeeff"`
				if i == 5 && strings.HasSuffix(name, "_base64") {
					v = `"ABEiM0RVZneImaq7zN3u/w=="`
				}
			}
			args = append(args, v)
		}
	}
	call := name + "(" + strings.Join(args, ", ") + ")"
	ret := f.Return.String()
	switch {
	case f.Return == types.NeverType:
		return "", call + ";\n", nil
	case tDeclarable[ret]:
		return "declare local var.verif_r " + ret + ";\n", "set var.verif_r = " + call + ";\n", nil
	default:
		return "", "log " + call + ";\n", nil
	}
}

func tVarBody(name, op string) (decls, body string, err error) {
	switch op {
	case "get":
		return "", "log " + name + ";\n", nil
	case "unset":
		return "", "unset " + name + ";\n", nil
	case "set":
		// the value is chosen from the type the REAL linter context declares for Set
		c := lctx.New()
		tDeclare(c)
		c.Scope(0)
		t, _ := c.Set(name)
		v, ok := tValueOf(t.String())
		if !ok {
			// not settable according to the linter: any value will do, the linter rejects the cell
			v = `"s"`
		}
		if t == types.IPType {
			v = `"192.0.2.7"`
		}
		return "", "set " + name + " = " + v + ";\n", nil
	}
	return "", "", fmt.Errorf("bad op %s", op)
}

func tStmtBody(kind string) (decls, body string, err error) {
	switch {
	case kind == "restart":
		return "", "restart;\n", nil
	case kind == "error":
		return "", "error 601 \"verif\";\n", nil
	case kind == "esi":
		return "", "esi;\n", nil
	case kind == "synthetic":
		return "", "synthetic \"verif\";\n", nil
	case kind == "synthetic.base64":
		return "", "synthetic.base64 \"dmVyaWY=\";\n", nil
	case kind == "return:restart":
		// unconditional return(restart) never terminates in the simulator (no restart bound on this path);
		// the cell restarts once
		return "", "if (req.restarts == 0) { return(restart); }\n", nil
	case strings.HasPrefix(kind, "return:"):
		return "", "return(" + strings.TrimPrefix(kind, "return:") + ");\n", nil
	}
	return "", "", fmt.Errorf("bad statement kind %s", kind)
}

// operand of a type in a form; ok=false when the form does not exist for the type.
// Local operands are initialised with a non-degenerate value (no zero divisor, a parsable
// address) so that what is observed is the typing of the operator, not a value error.
func tOperand(ty, form, local string, left bool) (decl, expr string, ok bool) {
	switch form {
	case "lit":
		switch ty {
		case "INTEGER":
			return "", "10", true
		case "FLOAT":
			return "", "1.5", true
		case "STRING":
			return "", `"192.0.2.1"`, true
		case "BOOL":
			return "", "true", true
		case "RTIME":
			return "", "5s", true
		case "BACKEND":
			return "", "be_one", true
		case "ACL":
			return "", "acl_one", true
		}
		return "", "", false
	case "local":
		if ty == "header" {
			n := "req.http.X-Verif-" + local
			return "set " + n + " = \"192.0.2.1\";\n", n, true
		}
		init := map[string]string{"INTEGER": "7", "FLOAT": "2.5", "STRING": `"192.0.2.1"`, "BOOL": "true", "RTIME": "90s",
			"TIME": "now", "IP": `"192.0.2.9"`, "BACKEND": "be_two"}
		if left {
			init["INTEGER"], init["FLOAT"], init["RTIME"] = "42", "40.5", "3600s"
		}
		d := "declare local var." + local + " " + ty + ";\n"
		if v, ok := init[ty]; ok {
			d += "set var." + local + " = " + v + ";\n"
		}
		return d, "var." + local, true
	case "predef":
		switch ty {
		case "INTEGER":
			return "", "client.socket.cwnd", true
		case "FLOAT":
			return "", "math.PI", true
		case "STRING":
			return "", "req.url", true
		case "BOOL":
			return "", "req.is_ssl", true
		case "RTIME":
			return "", "req.grace", true
		case "TIME":
			return "", "now", true
		case "IP":
			return "", "server.ip", true
		case "BACKEND":
			return "", "req.backend", true
		case "header":
			return "", "req.http.Host", true
		}
		return "", "", false
	}
	return "", "", false
}

var tAssignOps = map[string]bool{"=": true, "+=": true, "-=": true, "*=": true, "/=": true, "%=": true, "|=": true, "&=": true,
	"^=": true, "<<=": true, ">>=": true, "rol=": true, "ror=": true, "&&=": true, "||=": true}

func tCell(spec string) tResult { return tCellOpt(spec, true) }

func tCellOpt(spec string, execute bool) (res tResult) {
	f := strings.Split(spec, ",")
	var decls, body, src string
	var err error
	mask := 1
	depth := 0
	machine := false
	switch {
	case f[0] == "V" && len(f) == 4:
		decls, body, err = tVarBody(f[1], f[2])
		mask, _ = strconv.Atoi(f[3])
	case f[0] == "F" && len(f) == 4:
		idx, _ := strconv.Atoi(f[2])
		mask, _ = strconv.Atoi(f[3])
		decls, body, err = tFuncBody(f[1], idx, mask)
	case f[0] == "S" && len(f) == 3:
		decls, body, err = tStmtBody(f[1])
		mask, _ = strconv.Atoi(f[2])
		machine = strings.HasPrefix(f[1], "return:")
	case f[0] == "IV" && len(f) == 5:
		decls, body, err = tVarBody(f[1], f[2])
		depth, _ = strconv.Atoi(f[3])
		mask, _ = strconv.Atoi(f[4])
	case f[0] == "IF" && len(f) == 5:
		idx, _ := strconv.Atoi(f[2])
		depth, _ = strconv.Atoi(f[3])
		mask, _ = strconv.Atoi(f[4])
		decls, body, err = tFuncBody(f[1], idx, mask)
	case f[0] == "IS" && len(f) == 4:
		decls, body, err = tStmtBody(f[1])
		depth, _ = strconv.Atoi(f[2])
		mask, _ = strconv.Atoi(f[3])
		machine = strings.HasPrefix(f[1], "return:")
	case f[0] == "O" && len(f) == 5:
		src, err = tOpProgram(f[1], f[2], f[3], f[4])
	case f[0] == "L" && len(f) == 6:
		src, err = tOpProgramL(f[1], f[2], f[3], f[4], f[5])
	case f[0] == "A" && len(f) == 5:
		// A,<function or stmt:add>,<sig>,<identifier>,<mask>
		idx, _ := strconv.Atoi(f[2])
		mask, _ = strconv.Atoi(f[4])
		if f[1] == "stmt:add" {
			decls, body = "", "add "+f[3]+" = \"v\";\n"
		} else {
			decls, body, err = tFuncBodyID(f[1], idx, mask, f[3])
		}
	case f[0] == "X" && len(f) == 4:
		src, err = tVariantProgram(f[1], f[2], f[3])
	case f[0] == "C" && len(f) == 5:
		src, err = tCoerceProgram(f[1], f[2], f[3], f[4])
	default:
		err = fmt.Errorf("bad cell spec")
	}
	if err != nil {
		return tResult{lint: "-", interp: "-", lintMsg: err.Error()}
	}
	if mask <= 0 || mask >= 512 {
		return tResult{lint: "-", interp: "-", lintMsg: "bad mask"}
	}
	if strings.HasPrefix(f[0], "I") {
		if depth < 1 || depth > 3 {
			return tResult{lint: "-", interp: "-", lintMsg: "bad depth"}
		}
		src = tChainProgram(decls, body, depth, mask)
	} else if src == "" {
		src = tProgram(decls, body, mask)
	}
	res.src = strings.ReplaceAll(src[len(tPreamble):], "\n", " ")
	res.lint, res.lintMsg = tLint(src)
	if !execute {
		return res
	}
	res.interp, res.interpMsg, res.runs = tRun(src, tMaskScopes(mask), machine)
	return res
}

// ---------------------------------------------------------------- the real linter

func tLint(src string) (verdict, msg string) {
	defer func() {
		if r := recover(); r != nil {
			verdict, msg = "R", "crash "+strings.SplitN(fmt.Sprint(r), "\n", 2)[0]
		}
	}()
	vcl, err := parser.New(lexer.NewFromString(src, lexer.WithFile("cell.vcl"))).ParseVCL()
	if err != nil {
		return "R", "parse: " + err.Error()
	}
	lt := linter.New(&config.LinterConfig{})
	lt.Lint(vcl, lctx.New())
	if lt.FatalError != nil {
		return "R", "fatal: " + lt.FatalError.Error.Error()
	}
	for _, e := range lt.Errors {
		if e.Severity == linter.ERROR {
			return "R", string(e.Rule) + ": " + e.Message
		}
	}
	return "A", ""
}

// ---------------------------------------------------------------- the real simulator

var (
	tReScope = regexp.MustCompile(`(?i)could not call on|only available in|could only be enable on|is not available in|unexpected state|not allowed in|invalid state|state .* is not|could not (access|use) in|is not accessible in|cannot be assigned to .* in scope`)
	tReUndef = regexp.MustCompile(`(?i)undefined variable|is not defined|not implemented|undefined expression|is not found|could not (read|set|unset|assign)|cannot (read|set|unset)|is read-?only|is not found|undefined`)
	tReArity = regexp.MustCompile(`(?i)expects \d+ arguments? but|expects between|at least \d+ arguments|could not accept any arguments|argument count`)
	tReType  = regexp.MustCompile(`(?i)expects \S+ type but|cannot convert to string|could not assign to|invalid assignment|invalid operator|must be an ident|type mismatch|could not specify|invalid addition|invalid subtraction|invalid multipl|invalid division|invalid remainder|invalid (left|right)|invalid bitwise|invalid logical|invalid (shift|rotate)|unexpected type|could not (add|subtract|multipl|divide|compare)|invalid type|comparison|type of|types?\b.*\bnot\b|left and right type must be|could not use (\S+ )?assignment for type|must be a literal|could not be a literal|literal could not|value type is not|conversion failed|invalid return type|invalid parameter`)
)

func tClassify(msg string) string {
	switch {
	case tReArity.MatchString(msg):
		return "arity"
	case tReScope.MatchString(msg):
		return "scope"
	case tReType.MatchString(msg):
		return "type"
	case tReUndef.MatchString(msg):
		return "undef"
	}
	return "value"
}

func tRun(src string, scopes []int, machine bool) (class, msg string, runs int) {
	class = "ok"
	for _, s := range scopes {
		c, m := tRunOne(src, s, machine)
		runs++
		if c != "ok" {
			return c, tScopeNames[s] + ": " + m, runs
		}
	}
	return class, "", runs
}

func tRunOne(src string, scope int, machine bool) (class, msg string) {
	defer func() {
		if r := recover(); r != nil {
			class, msg = "crash", strings.SplitN(fmt.Sprint(r), "\n", 2)[0]
		}
	}()
	vcl, err := parser.New(lexer.NewFromString(src, lexer.WithFile("cell.vcl"))).ParseVCL()
	if err != nil {
		return "other", "parse: " + err.Error()
	}
	var sub *ast.SubroutineDeclaration
	for _, st := range vcl.Statements {
		if d, ok := st.(*ast.SubroutineDeclaration); ok && d.Name.Value == "vcl_"+tScopeNames[scope] {
			sub = d
		}
	}
	if sub == nil {
		return "other", "no subroutine for the scope"
	}
	ip := interpreter.New(ictx.WithResolver(resolver.NewStaticResolver("cell.vcl", src)))
	ip.Debugger = tQuiet{}
	req, err := ihttp.NewRequest(http.MethodGet, "http://localhost/verif?a=b", http.NoBody)
	if err != nil {
		return "other", "request: " + err.Error()
	}
	req.RemoteAddr = "192.0.2.1:11111"
	if err := ip.TestProcessInit(req); err != nil {
		return "other", "init: " + tFlat(err.Error())
	}
	if machine {
		// the state machine's own check of the returned action: run the real Process<Scope>
		var err error
		switch scope {
		case 0:
			err = ip.ProcessRecv()
		case 1:
			err = ip.ProcessHash()
		case 2:
			err = ip.ProcessHit()
		case 3:
			err = ip.ProcessMiss()
		case 4:
			err = ip.ProcessPass()
		case 5:
			err = ip.ProcessFetch()
		case 6:
			err = ip.ProcessError()
		case 7:
			err = ip.ProcessDeliver()
		case 8:
			err = ip.ProcessLog()
		}
		if err != nil {
			m := tFlat(err.Error())
			return tClassify(m), m
		}
		return "ok", ""
	}
	if err := ip.ProcessTestSubroutine(tInterpScopes[scope], sub); err != nil {
		m := tFlat(err.Error())
		return tClassify(m), m
	}
	return "ok", ""
}

func tWideMasks(set string) []int {
	var out []int
	for m := 1; m < 512; m++ {
		if set == "all" || bits.OnesCount(uint(m)) == 3 || m == 511 {
			out = append(out, m)
		}
	}
	return out
}

func tWide(rest string) string {
	f := strings.Fields(rest)
	if len(f) != 2 {
		return "err bad request"
	}
	acc := new(big.Int)
	var c *lctx.Context
	if strings.HasPrefix(f[0], "V,") {
		// one context for the row (as within one linted file); Get/Set only cache resolved objects
		c = lctx.New()
		tDeclare(c)
	}
	for _, m := range tWideMasks(f[1]) {
		var ok bool
		if c != nil {
			p := strings.Split(f[0], ",")
			if len(p) != 3 {
				return "err bad spec"
			}
			ok = strings.HasPrefix(tCtxOp(c, p[1], p[2], m), "A")
		} else {
			r := tCellOpt(fmt.Sprintf("%s,%d", f[0], m), false)
			if r.lint != "A" && r.lint != "R" {
				return "err " + r.lintMsg
			}
			ok = r.lint == "A"
		}
		if ok {
			acc.SetBit(acc, m, 1)
		}
	}
	return "bits " + acc.String()
}

// type of the value of a predefined variable in each scope: ProcessExpression(&ast.Ident{...}) after SetScope
func tVType(name string) string {
	src := tProgram("", "", 1)
	out := make([]string, len(tScopeNames))
	for s := range tScopeNames {
		out[s] = func() (r string) {
			defer func() {
				if e := recover(); e != nil {
					r = "-"
				}
			}()
			ip := interpreter.New(ictx.WithResolver(resolver.NewStaticResolver("cell.vcl", src)))
			ip.Debugger = tQuiet{}
			req, err := ihttp.NewRequest(http.MethodGet, "http://localhost/verif?a=b", http.NoBody)
			if err != nil {
				return "-"
			}
			req.RemoteAddr = "192.0.2.1:11111"
			if err := ip.TestProcessInit(req); err != nil {
				return "-"
			}
			ip.SetScope(tInterpScopes[s])
			v, err := ip.ProcessExpression(&ast.Ident{Value: name, Meta: &ast.Meta{}})
			if err != nil || v == nil {
				return "-"
			}
			return string(v.Type())
		}()
	}
	return strings.Join(out, " ")
}

type tQuiet struct{}

func (tQuiet) Run(ast.Node) interpreter.DebugState { return interpreter.DebugPass }
func (tQuiet) Message(string)                      {}
func (tQuiet) Log(*ast.LogStatement, string)       {}

func tFlat(s string) string {
	s = strings.ReplaceAll(s, "\n", " ")
	if len(s) > 300 {
		s = s[:300]
	}
	return s
}
