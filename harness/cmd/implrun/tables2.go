package main

// tables2.go - C05 observation, second set of dimensions (cells registered in tCellOpt, tables.go):
//
//	IV,<name>,<op>,<depth>,<mask>      the use sits in the innermost of <depth> (1..3) UN-ANNOTATED helper
//	IF,<name>,<sig>,<depth>,<mask>     subroutines; the chain is called from vcl_<s> for every scope s of <mask>
//	IS,<kind>,<depth>,<mask>           (scopes of the helpers come from the linter's call-graph inference)
//
//	O,<op>,<lty>,<rty>,<form>          forms beyond lit / local / predef:
//	                                   plit plocal ppredef  the right operand is a PARAMETER of type rty of a functional
//	                                                        subroutine holding the statement, bound from a literal or
//	                                                        identifier / a local / a predefined variable at the call site
//	                                   ifexp                if(req.http.Host, <local>, <local>)
//	                                   call                 result of a functional subroutine returning rty
//
//	                                   dinit dexpr copy compound default inif   a local variable that got its value by a
//	                                                        declaration with initialiser (literal / variable), from another
//	                                                        variable, by a compound operator, never, inside an if block
//	L,<op>,<lty>,<lprov>,<rty>,<form>  the same provenances for the LEFT operand (form: lit or local)
//
//	X,<op>,<lty>,<variant>             other spellings of a literal (negative numbers, RTIME units, long string, false)
//	                                   and a header sub-field (req.http.X:sub) as right operand
//
//	C,<ctx>,<E>,<T>,<form>             a value of type T in one of the eight forms where a value of type E is expected:
//	                                   ctx = arg (argument of a built-in expecting E), ret (return value of a functional
//	                                   subroutine of return type E), par (argument bound to a parameter of type E)

import (
	"crypto"
	"crypto/ecdsa"
	"crypto/elliptic"
	"crypto/rand"
	"crypto/rsa"
	"crypto/sha256"
	"crypto/x509"
	"encoding/base64"
	"encoding/pem"
	"fmt"
	"strings"
	"sync"
)

// program in which the use sits at the end of a chain of un-annotated helpers
func tChainProgram(decls, body string, depth, mask int) string {
	var b strings.Builder
	b.WriteString(tPreamble)
	for d := depth; d >= 1; d-- {
		if d == depth {
			fmt.Fprintf(&b, "sub verif_h%d {\n%s%s}\n", d, decls, body)
		} else {
			fmt.Fprintf(&b, "sub verif_h%d {\ncall verif_h%d;\n}\n", d, d+1)
		}
	}
	for _, s := range tMaskScopes(mask) {
		n := tScopeNames[s]
		fmt.Fprintf(&b, "sub vcl_%s {\n#FASTLY %s\ncall verif_h1;\n}\n", n, strings.ToUpper(n))
	}
	return b.String()
}

// a local variable of the type that got its value in a particular way ("provenance"):
//
//	dinit     declare local var.x T = <literal or declared name>;
//	dexpr     declare local var.x T = <another local variable>;
//	copy      declare local var.x T; set var.x = <another local variable>;
//	compound  assigned, then updated by a compound operator
//	default   declared and never assigned
//	inif      assigned inside an if block
func tInitValue(ty string, left bool) (string, bool) {
	init := map[string]string{"INTEGER": "7", "FLOAT": "2.5", "STRING": `"192.0.2.1"`, "BOOL": "true", "RTIME": "90s",
		"TIME": "now", "IP": `"192.0.2.9"`, "BACKEND": "be_two", "ACL": "acl_one"}
	if left {
		init["INTEGER"], init["FLOAT"], init["RTIME"] = "42", "40.5", "3600s"
	}
	v, ok := init[ty]
	return v, ok
}

var tProvForms = map[string]bool{"dinit": true, "dexpr": true, "copy": true, "compound": true, "default": true, "inif": true}

func tProvOperand(ty, prov, name string, left bool) (decl, expr string, ok bool) {
	if ty == "header" {
		return "", "", false
	}
	v, hasInit := tInitValue(ty, left)
	x := "var." + name
	switch prov {
	case "dinit":
		switch ty {
		case "INTEGER", "FLOAT", "STRING", "BOOL", "RTIME", "BACKEND", "ACL":
			return "declare local " + x + " " + ty + " = " + v + ";\n", x, true
		}
		return "", "", false
	case "dexpr", "copy":
		if !hasInit {
			return "", "", false
		}
		q := x + "q"
		d := "declare local " + q + " " + ty + ";\nset " + q + " = " + v + ";\n"
		if prov == "dexpr" {
			return d + "declare local " + x + " " + ty + " = " + q + ";\n", x, true
		}
		return d + "declare local " + x + " " + ty + ";\nset " + x + " = " + q + ";\n", x, true
	case "compound":
		d := "declare local " + x + " " + ty + ";\n"
		switch ty {
		case "INTEGER":
			return d + "set " + x + " = " + v + ";\nset " + x + " += 1;\n", x, true
		case "FLOAT":
			return d + "set " + x + " = " + v + ";\nset " + x + " += 1.5;\n", x, true
		case "RTIME":
			return d + "set " + x + " = " + v + ";\nset " + x + " += 5s;\n", x, true
		case "TIME":
			return d + "set " + x + " = now;\nset " + x + " += 5s;\n", x, true
		case "STRING":
			return d + "set " + x + " = \"192.0.2.\";\nset " + x + " += \"1\";\n", x, true
		case "BOOL":
			return d + "set " + x + " = false;\nset " + x + " ||= true;\n", x, true
		}
		return "", "", false
	case "default":
		return "declare local " + x + " " + ty + ";\n", x, true
	case "inif":
		if !hasInit {
			return "", "", false
		}
		return "declare local " + x + " " + ty + ";\nif (req.http.Host) {\nset " + x + " = " + v + ";\n}\n", x, true
	}
	return "", "", false
}

var tBaseForm = map[string]string{"plit": "lit", "plocal": "local", "ppredef": "predef"}

// right-hand value of a type in one of the eight forms
type tRhs struct {
	subs      string // extra top-level subroutines
	decls     string // statements before the use, in the block of the use
	expr      string
	wrapParam string // "" or "<T> var.r": the block of the use is a functional subroutine with this parameter
	argDecls  string // call site of that subroutine
	arg       string
}

func tRhsOf(ty, form string) (tRhs, bool) {
	switch form {
	case "lit", "local", "predef":
		d, e, ok := tOperand(ty, form, "r", false)
		return tRhs{decls: d, expr: e}, ok
	case "plit", "plocal", "ppredef":
		if ty == "header" {
			return tRhs{}, false
		}
		d, e, ok := tOperand(ty, tBaseForm[form], "a", false)
		return tRhs{expr: "var.r", wrapParam: ty + " var.r", argDecls: d, arg: e}, ok
	case "dinit", "dexpr", "copy", "compound", "default", "inif":
		d, e, ok := tProvOperand(ty, form, "r", false)
		return tRhs{decls: d, expr: e}, ok
	case "ifexp":
		d1, e1, ok := tOperand(ty, "local", "r", false)
		d2, e2, _ := tOperand(ty, "local", "q", false)
		return tRhs{decls: d1 + d2, expr: "if(req.http.Host, " + e1 + ", " + e2 + ")"}, ok
	case "call":
		if ty == "header" {
			return tRhs{}, false
		}
		d, e, ok := tOperand(ty, "local", "r", false)
		return tRhs{subs: "sub verif_id(" + ty + " var.p) " + ty + " {\nreturn var.p;\n}\n", decls: d, expr: "verif_id(" + e + ")"}, ok
	}
	return tRhs{}, false
}

// program (RECV) around a use that needs the right-hand value
func tAssemble(r tRhs, extraSubs, useDecls, use string) string {
	var b strings.Builder
	b.WriteString(tPreamble)
	b.WriteString(r.subs)
	b.WriteString(extraSubs)
	if r.wrapParam == "" {
		fmt.Fprintf(&b, "sub vcl_recv {\n#FASTLY RECV\n%s%s%s}\n", useDecls, r.decls, use)
		return b.String()
	}
	fmt.Fprintf(&b, "sub verif_fn(%s) STRING {\n%s%s%sreturn \"ok\";\n}\n", r.wrapParam, useDecls, r.decls, use)
	fmt.Fprintf(&b, "sub vcl_recv {\n#FASTLY RECV\n%sdeclare local var.verif_s STRING;\nset var.verif_s = verif_fn(%s);\n}\n", r.argDecls, r.arg)
	return b.String()
}

func tOpProgram(op, lty, rty, form string) (string, error) {
	return tOpProgramL(op, lty, "local", rty, form)
}

// the left operand (assignment target / left side of the comparison) with a provenance of its own
func tOpProgramL(op, lty, lprov, rty, form string) (string, error) {
	var ld, le string
	var ok bool
	if lprov == "local" {
		ld, le, ok = tOperand(lty, "local", "l", true)
	} else {
		ld, le, ok = tProvOperand(lty, lprov, "l", true)
	}
	if !ok {
		return "", fmt.Errorf("no left operand of type %s", lty)
	}
	r, ok := tRhsOf(rty, form)
	if !ok {
		return "", fmt.Errorf("no %s operand of type %s", form, rty)
	}
	if tAssignOps[op] {
		return tAssemble(r, "", ld, "set "+le+" "+op+" "+r.expr+";\n"), nil
	}
	return tAssemble(r, "", ld+"declare local var.verif_b BOOL;\n", "set var.verif_b = ("+le+" "+op+" "+r.expr+");\n"), nil
}

// literal spellings and a header sub-field as right operand: (variant id) -> (declarations, expression)
var tVariants = map[string][2]string{
	"int-neg":    {"", "-5"},
	"float-neg":  {"", "-1.5"},
	"rtime-m":    {"", "5m"},
	"rtime-h":    {"", "1h"},
	"rtime-d":    {"", "2d"},
	"rtime-y":    {"", "1y"},
	"rtime-ms":   {"", "500ms"},
	"str-long":   {"", "{\"192.0.2.1\"}"},
	"bool-false": {"", "false"},
	"hdr-field":  {"set req.http.X-Verif-r:sub = \"192.0.2.1\";\n", "req.http.X-Verif-r:sub"},
}

func tVariantProgram(op, lty, variant string) (string, error) {
	v, ok := tVariants[variant]
	if !ok {
		return "", fmt.Errorf("unknown variant %s", variant)
	}
	ld, le, ok := tOperand(lty, "local", "l", true)
	if !ok {
		return "", fmt.Errorf("no left operand of type %s", lty)
	}
	r := tRhs{decls: v[0], expr: v[1]}
	if tAssignOps[op] {
		return tAssemble(r, "", ld, "set "+le+" "+op+" "+r.expr+";\n"), nil
	}
	return tAssemble(r, "", ld+"declare local var.verif_b BOOL;\n", "set var.verif_b = ("+le+" "+op+" "+r.expr+");\n"), nil
}

// a built-in with one argument position of each type
func tArgCall(e, x string) (string, bool) {
	switch e {
	case "STRING":
		return "std.toupper(" + x + ")", true
	case "INTEGER":
		return "table.lookup_integer(tbl_integer, \"k\", " + x + ")", true
	case "FLOAT":
		return "table.lookup_float(tbl_float, \"k\", " + x + ")", true
	case "BOOL":
		return "table.lookup_bool(tbl_bool, \"k\", " + x + ")", true
	case "RTIME":
		return "table.lookup_rtime(tbl_rtime, \"k\", " + x + ")", true
	case "TIME":
		return "time.add(" + x + ", 1s)", true
	case "IP":
		return "table.lookup_ip(tbl_ip, \"k\", " + x + ")", true
	case "BACKEND":
		return "table.lookup_backend(tbl_backend, \"k\", " + x + ")", true
	case "ACL":
		return "table.lookup_acl(tbl_acl, \"k\", " + x + ")", true
	}
	return "", false
}

func tCoerceProgram(ctx, e, ty, form string) (string, error) {
	r, ok := tRhsOf(ty, form)
	if !ok {
		return "", fmt.Errorf("no %s value of type %s", form, ty)
	}
	switch ctx {
	case "arg":
		call, ok := tArgCall(e, r.expr)
		if !ok {
			return "", fmt.Errorf("no built-in expecting %s", e)
		}
		return tAssemble(r, "", "", "log "+call+";\n"), nil
	case "par":
		sub := "sub verif_p(" + e + " var.p) STRING {\nreturn \"ok\";\n}\n"
		return tAssemble(r, sub, "declare local var.verif_t STRING;\n", "set var.verif_t = verif_p("+r.expr+");\n"), nil
	case "ret":
		var b strings.Builder
		b.WriteString(tPreamble)
		b.WriteString(r.subs)
		if r.wrapParam == "" {
			fmt.Fprintf(&b, "sub verif_r %s {\n%sreturn %s;\n}\n", e, r.decls, r.expr)
			fmt.Fprintf(&b, "sub vcl_recv {\n#FASTLY RECV\ndeclare local var.verif_o %s;\nset var.verif_o = verif_r();\n}\n", e)
		} else {
			fmt.Fprintf(&b, "sub verif_r(%s) %s {\n%sreturn %s;\n}\n", r.wrapParam, e, r.decls, r.expr)
			fmt.Fprintf(&b, "sub vcl_recv {\n#FASTLY RECV\n%sdeclare local var.verif_o %s;\nset var.verif_o = verif_r(%s);\n}\n", r.argDecls, e, r.arg)
		}
		return b.String(), nil
	}
	return "", fmt.Errorf("bad context %s", ctx)
}

// ---- key material for digest.rsa_verify / digest.ecdsa_verify: a key pair and a valid signature of the payload,
// generated once per process (crypto/rsa, crypto/ecdsa; nothing is read from outside)
const tDigestPayload = "verif-payload"

var (
	tDigestOnce        sync.Once
	tRsaPem, tEcdsaPem string
	tRsaSig, tEcdsaSig []byte
)

func tDigestInit() {
	tDigestOnce.Do(func() {
		sum := sha256.Sum256([]byte(tDigestPayload))
		if k, err := rsa.GenerateKey(rand.Reader, 2048); err == nil {
			if der, err := x509.MarshalPKIXPublicKey(&k.PublicKey); err == nil {
				tRsaPem = string(pem.EncodeToMemory(&pem.Block{Type: "PUBLIC KEY", Bytes: der}))
			}
			tRsaSig, _ = rsa.SignPKCS1v15(rand.Reader, k, crypto.SHA256, sum[:])
		}
		if k, err := ecdsa.GenerateKey(elliptic.P256(), rand.Reader); err == nil {
			if der, err := x509.MarshalPKIXPublicKey(&k.PublicKey); err == nil {
				tEcdsaPem = string(pem.EncodeToMemory(&pem.Block{Type: "PUBLIC KEY", Bytes: der}))
			}
			tEcdsaSig, _ = ecdsa.SignASN1(rand.Reader, k, sum[:])
		}
	})
}

// STRING argument i of digest.<x>_verify in a signature of nargs arguments
func tDigestArg(fn string, i, nargs int) string {
	tDigestInit()
	pemText, sig := tRsaPem, tRsaSig
	// rsa: (hash, key, payload, digest [, base64 method]); ecdsa: (hash, key, payload, digest, format [, base64 method])
	withMethod := nargs == 5
	if fn == "digest.ecdsa_verify" {
		pemText, sig = tEcdsaPem, tEcdsaSig
		withMethod = nargs == 6
	}
	switch i {
	case 1:
		return "{\"" + pemText + "\"}"
	case 2:
		return "\"" + tDigestPayload + "\""
	case 3:
		if withMethod {
			return "\"" + base64.StdEncoding.EncodeToString(sig) + "\"" // the cell passes the identifier `standard`
		}
		return "\"" + base64.RawURLEncoding.EncodeToString(sig) + "\"" // default url_nopad
	}
	return "\"s\""
}
