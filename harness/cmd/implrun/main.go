// implrun: runs the real falco code (from the /repo working tree, build tag verif)
// on inputs given one per line on stdin; one reply per line on stdout, prefixed
// by the request index:  "<idx>\t<reply>".  A panic inside a request is reported
// as "<idx>\tcrash <first line>" (recover); fatal errors / hangs are handled by the
// supervising Python (lib/vcommon.py run_batch), which restarts after the culprit.
package main

import (
	"bufio"
	"fmt"
	"os"
	"strings"
)

type handler func(args string) string

var commands = map[string]handler{}

func register(name string, h handler) {
	if _, dup := commands[name]; dup {
		panic("implrun: command registered twice: " + name)
	}
	commands[name] = h
}

func safe(h handler, args string) (out string) {
	defer func() {
		if r := recover(); r != nil {
			msg := strings.SplitN(fmt.Sprint(r), "\n", 2)[0]
			out = "crash " + msg
		}
	}()
	return h(args)
}

func main() {
	if len(os.Args) < 2 {
		fmt.Fprintln(os.Stderr, "usage: implrun <command>   (requests on stdin)")
		os.Exit(2)
	}
	h, ok := commands[os.Args[1]]
	if !ok {
		fmt.Fprintf(os.Stderr, "implrun: unknown command %q\n", os.Args[1])
		os.Exit(2)
	}
	in := bufio.NewReaderSize(os.Stdin, 1<<20)
	out := bufio.NewWriterSize(os.Stdout, 1<<16)
	defer out.Flush()
	for {
		line, err := in.ReadString('\n')
		line = strings.TrimRight(line, "\r\n")
		if line != "" {
			idx, rest, _ := strings.Cut(line, "\t")
			// announce the request first so that the supervisor knows which one hangs
			fmt.Fprintf(out, "%s\t%s\n", idx, strings.ReplaceAll(safe(h, rest), "\n", "\\n"))
			out.Flush()
		}
		if err != nil {
			return
		}
	}
}
