package main

// implrun acl: "<entries> <ips>"  entries = comma separated  [!]addr[/mask]  (text), ips = comma separated probes.
// The ACL is declared in the main VCL of a real interpreter and matched by
//     if (var.ip ~ a) { set var.b = true; }
// reply:  ok <r1> <r2> ...  with r = 1 | 0 | err (runtime error, e.g. unparsable CIDR); initerr <..> (parse / declaration)

import (
	"strings"

	icontext "github.com/ysugimoto/falco/v2/interpreter/context"
	"github.com/ysugimoto/falco/v2/interpreter/value"
)

func init() { register("acl", aclCmd) }

func aclCmd(args string) string {
	f := strings.Fields(args)
	if len(f) != 2 {
		return "badreq"
	}
	var sb strings.Builder
	sb.WriteString("acl a {\n")
	if f[0] != "-" {
		for _, e := range strings.Split(f[0], ",") {
			neg := strings.HasPrefix(e, "!")
			e = strings.TrimPrefix(e, "!")
			addr, mask, hasMask := strings.Cut(e, "/")
			sb.WriteString("  ")
			if neg {
				sb.WriteString("!")
			}
			sb.WriteString("\"" + addr + "\"")
			if hasMask {
				sb.WriteString("/" + mask)
			}
			sb.WriteString(";\n")
		}
	}
	sb.WriteString("}\n")
	ip, err := evNewInterp(sb.String(), icontext.RecvScope)
	if err != nil {
		return "initerr " + strings.SplitN(err.Error(), "\n", 2)[0]
	}
	var out []string
	for _, probe := range strings.Split(f[1], ",") {
		stmts, err := evParseSnippet(`declare local var.ip IP; declare local var.b BOOL; set var.ip = "` + probe + `"; if (var.ip ~ a) { set var.b = true; }`)
		if err != nil {
			return "initerr " + err.Error()
		}
		if err := evRun(ip, stmts); err != nil {
			out = append(out, "err")
			continue
		}
		v, err := evVar(ip, "var.b")
		if err != nil {
			out = append(out, "err")
			continue
		}
		if b, ok := v.(*value.Boolean); ok && b.Value {
			out = append(out, "1")
		} else {
			out = append(out, "0")
		}
	}
	return "ok " + strings.Join(out, " ")
}
