package main

// implrun evalseries: "<vars> <hex expression text>"
//   vars = v0=<value>;v1=<value>;...  (value text of evalcell without the form letter) or "-":
//          declared as locals var.v0 ... and injected
//   the expression (operands juxtaposed or joined by +, string / RTIME literals, var.vN) is parsed as the
//   right-hand side of `set req.http.Zz = <expr>;` and evaluated twice by Interpreter.ProcessExpression:
//   without options (header / log / condition context) and with LocalVariableExpression() (assignment to a local)
// reply: nl=<ok:value | err | null> lo=<ok:value | err | null>     null = value.Null returned WITHOUT an error

import (
	"strings"

	"github.com/ysugimoto/falco/v2/ast"
	"github.com/ysugimoto/falco/v2/interpreter"
	icontext "github.com/ysugimoto/falco/v2/interpreter/context"
	"github.com/ysugimoto/falco/v2/interpreter/value"
)

func init() { register("evalseries", evalSeries) }

func evalSeries(args string) string {
	f := strings.Fields(args)
	if len(f) != 2 {
		return "badreq"
	}
	vcl := cellBackends + aclDeclText("a0", "10.0.0.0/8,!10.1.0.0/16")
	ip, err := evNewInterp(vcl, icontext.RecvScope)
	if err != nil {
		return "initerr " + strings.SplitN(err.Error(), "\n", 2)[0]
	}
	if f[0] != "-" {
		for _, d := range strings.Split(f[0], ";") {
			name, spec, _ := strings.Cut(d, "=")
			if _, err := cellOperand(ip, "var."+name, "v"+spec); err != nil {
				return "badreq var: " + err.Error()
			}
		}
	}
	stmts, err := evParseSnippet("set req.http.Zz = " + unhex(f[1]) + ";")
	if err != nil {
		return "parseerr " + strings.SplitN(err.Error(), "\n", 2)[0]
	}
	set, ok := stmts[0].(*ast.SetStatement)
	if !ok {
		return "badreq not a set statement"
	}
	show := func(v value.Value, err error) string {
		if err != nil {
			return "err"
		}
		if v == nil || v == value.Null {
			return "null"
		}
		return "ok:" + showVal(v)
	}
	nl := show(ip.ProcessExpression(set.Value))
	lo := show(ip.ProcessExpression(set.Value, interpreter.LocalVariableExpression()))
	return "nl=" + nl + " lo=" + lo + " ast=" + cxExpr(set.Value)
}
