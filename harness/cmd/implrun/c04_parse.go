package main

import (
	"strings"

	"github.com/ysugimoto/falco/v2/lexer"
	"github.com/ysugimoto/falco/v2/parser"
)

// parsefile <hex source>: does the text parse as a VCL module (ParseVCL)?  Used by C04 as an
// oracle for "an included file has a syntax error" that does not go through the linter.
func init() {
	register("parsefile", func(args string) string {
		src, err := unhx(strings.TrimSpace(args))
		if err != nil {
			return "badreq"
		}
		if _, err := parser.New(lexer.NewFromString(string(src))).ParseVCL(); err != nil {
			return "err"
		}
		return "ok"
	})
}
