package main

import (
	"bytes"
	"fmt"
	"math"
	"strings"

	"github.com/ysugimoto/falco/v2/ast"
	"github.com/ysugimoto/falco/v2/ast/codec"
	"github.com/ysugimoto/falco/v2/lexer"
	"github.com/ysugimoto/falco/v2/parser"
)

// ---- projection of the Go AST onto what the codec must preserve (Model/CodecAst.v) ----

func cxLit(m *ast.Meta) string {
	if m == nil {
		return hx("")
	}
	return hx(m.Token.Literal)
}

func cxExpr(e ast.Expression) string {
	switch t := e.(type) {
	case nil:
		return "(unknown)"
	case *ast.Ident:
		if t == nil {
			return "(unknown)"
		}
		return sx("ident", hx(t.Value))
	case *ast.String:
		return sx("str", hx(t.Value))
	case *ast.IP:
		return sx("ip", hx(t.Value))
	case *ast.RTime:
		return sx("rtime", hx(t.Value))
	case *ast.Boolean:
		return sx("bool", b01(t.Value))
	case *ast.Integer:
		return sx("int", u64(uint64(t.Value)), cxLit(t.Meta))
	case *ast.Float:
		return sx("float", u64(math.Float64bits(t.Value)), cxLit(t.Meta))
	case *ast.GroupedExpression:
		return sx("group", cxExpr(t.Right))
	case *ast.InfixExpression:
		return cxInfix(t)
	case *ast.PostfixExpression:
		return sx("postfix", cxExpr(t.Left), hx(t.Operator))
	case *ast.PrefixExpression:
		return sx("prefix", hx(t.Operator), cxExpr(t.Right))
	case *ast.IfExpression:
		return sx("ifexp", cxExpr(t.Condition), cxExpr(t.Consequence), cxExpr(t.Alternative))
	case *ast.FunctionCallExpression:
		return sx("call", append([]string{hx(t.Function.Value)}, cxExprs(t.Arguments)...)...)
	default:
		return "(unknown)"
	}
}

func cxInfix(t *ast.InfixExpression) string {
	l := "_"
	if t.Left != nil {
		l = cxExpr(t.Left)
	}
	return sx("infix", l, hx(t.Operator), cxExpr(t.Right))
}

func cxExprs(es []ast.Expression) []string {
	out := make([]string, 0, len(es))
	for _, e := range es {
		out = append(out, cxExpr(e))
	}
	return out
}

func cxOptExpr(e ast.Expression) string {
	if e == nil {
		return "_"
	}
	return cxExpr(e)
}

func cxStmts(ss []ast.Statement) string {
	out := make([]string, 0, len(ss))
	for _, s := range ss {
		out = append(out, cxStmt(s))
	}
	return lst(out)
}

func cxBlock(b *ast.BlockStatement) string {
	if b == nil {
		return "()"
	}
	return cxStmts(b.Statements)
}

func cxIfs(t *ast.IfStatement) string {
	var an []string
	for _, a := range t.Another {
		an = append(an, cxIfs(a))
	}
	alt := "_"
	if t.Alternative != nil {
		alt = cxBlock(t.Alternative.Consequence)
	}
	return sx("ifs", hx(t.Keyword), cxExpr(t.Condition), cxBlock(t.Consequence), lst(an), alt)
}

func cxCas(t *ast.CaseStatement) string {
	test := "_"
	if t.Test != nil {
		test = cxInfix(t.Test)
	}
	return sx("cas", test, cxStmts(t.Statements), b01(t.Fallthrough))
}

func cxKVb(ps []*ast.BackendProperty) []string {
	var out []string
	for _, p := range ps {
		out = append(out, sx("kv", hx(p.Key.Value), cxExpr(p.Value)))
	}
	return out
}

func cxKVd(ps []*ast.DirectorProperty) []string {
	var out []string
	for _, p := range ps {
		out = append(out, sx("kv", hx(p.Key.Value), cxExpr(p.Value)))
	}
	return out
}

func cxStmt(s ast.Statement) string {
	switch t := s.(type) {
	case *ast.AddStatement:
		return sx("add", hx(t.Ident.Value), hx(t.Operator.Operator), cxExpr(t.Value))
	case *ast.SetStatement:
		return sx("set", hx(t.Ident.Value), hx(t.Operator.Operator), cxExpr(t.Value))
	case *ast.BlockStatement:
		return sx("block", cxStmts(t.Statements))
	case *ast.BreakStatement:
		return "(break)"
	case *ast.EsiStatement:
		return "(esi)"
	case *ast.FallthroughStatement:
		return "(fallthrough)"
	case *ast.RestartStatement:
		return "(restart)"
	case *ast.CallStatement:
		return sx("call", append([]string{hx(t.Subroutine.Value)}, cxExprs(t.Arguments)...)...)
	case *ast.CaseStatement:
		return sx("case", cxCas(t))
	case *ast.DeclareStatement:
		return sx("declare", hx(t.Name.Value), hx(t.ValueType.Value), cxOptExpr(t.Value))
	case *ast.ErrorStatement:
		return sx("error", cxOptExpr(t.Code), cxOptExpr(t.Argument))
	case *ast.FunctionCallStatement:
		return sx("funcall", append([]string{hx(t.Function.Value)}, cxExprs(t.Arguments)...)...)
	case *ast.GotoStatement:
		return sx("goto", hx(t.Destination.Value))
	case *ast.GotoDestinationStatement:
		return sx("gotodest", hx(t.Name.Value))
	case *ast.IfStatement:
		return sx("if", cxIfs(t))
	case *ast.ImportStatement:
		return sx("import", hx(t.Name.Value))
	case *ast.IncludeStatement:
		return sx("include", hx(t.Module.Value))
	case *ast.LogStatement:
		return sx("log", cxExpr(t.Value))
	case *ast.RemoveStatement:
		return sx("remove", hx(t.Ident.Value))
	case *ast.UnsetStatement:
		return sx("unset", hx(t.Ident.Value))
	case *ast.ReturnStatement:
		return sx("return", b01(t.HasParenthesis), cxOptExpr(t.ReturnExpression))
	case *ast.SwitchStatement:
		var cs []string
		for _, c := range t.Cases {
			cs = append(cs, cxCas(c))
		}
		return sx("switch", cxExpr(t.Control.Expression), lst(cs), u64(uint64(int64(t.Default))))
	case *ast.SyntheticStatement:
		return sx("synthetic", cxExpr(t.Value))
	case *ast.SyntheticBase64Statement:
		return sx("synthetic64", cxExpr(t.Value))
	case *ast.AclDeclaration:
		parts := []string{hx(t.Name.Value)}
		for _, c := range t.CIDRs {
			inv, mask := "_", "_"
			if c.Inverse != nil {
				inv = b01(c.Inverse.Value)
			}
			if c.Mask != nil {
				mask = sx("m", u64(uint64(c.Mask.Value)), cxLit(c.Mask.Meta))
			}
			parts = append(parts, sx("cidr", inv, hx(c.IP.Value), mask))
		}
		return sx("acl", parts...)
	case *ast.BackendDeclaration:
		parts := []string{hx(t.Name.Value)}
		for _, p := range t.Properties {
			if po, ok := p.Value.(*ast.BackendProbeObject); ok {
				parts = append(parts, sx("probe", append([]string{hx(p.Key.Value)}, cxKVb(po.Values)...)...))
			} else {
				parts = append(parts, sx("bp", hx(p.Key.Value), cxExpr(p.Value)))
			}
		}
		return sx("backend", parts...)
	case *ast.DirectorDeclaration:
		parts := []string{hx(t.Name.Value), hx(t.DirectorType.Value)}
		for _, p := range t.Properties {
			switch q := p.(type) {
			case *ast.DirectorBackendObject:
				parts = append(parts, sx("dbackend", cxKVd(q.Values)...))
			case *ast.DirectorProperty:
				parts = append(parts, sx("dp", hx(q.Key.Value), cxExpr(q.Value)))
			default:
				parts = append(parts, "(dunknown)")
			}
		}
		return sx("director", parts...)
	case *ast.PenaltyboxDeclaration:
		return sx("penaltybox", hx(t.Name.Value))
	case *ast.RatecounterDeclaration:
		return sx("ratecounter", hx(t.Name.Value))
	case *ast.SubroutineDeclaration:
		var ps []string
		for _, p := range t.Parameters {
			ps = append(ps, sx("p", hx(p.Type.Value), hx(p.Name.Value)))
		}
		ret := "_"
		if t.ReturnType != nil {
			ret = hx(t.ReturnType.Value)
		}
		return sx("sub", hx(t.Name.Value), lst(ps), ret, cxBlock(t.Block))
	case *ast.TableDeclaration:
		ty := "_"
		if t.ValueType != nil {
			ty = hx(t.ValueType.Value)
		}
		parts := []string{hx(t.Name.Value), ty}
		for _, p := range t.Properties {
			parts = append(parts, sx("tp", hx(p.Key.Value), cxExpr(p.Value)))
		}
		return sx("table", parts...)
	default:
		return "(unknownstmt)"
	}
}

func parseSrc(mode string, src []byte) ([]ast.Statement, error) {
	p := parser.New(lexer.NewFromString(string(src)))
	switch mode {
	case "vcl":
		v, err := p.ParseVCL()
		if err != nil {
			return nil, err
		}
		return v.Statements, nil
	default:
		return p.ParseSnippetVCL()
	}
}

// bytes (and their statements) returned by the PREVIOUS src request of this process: results the
// caller still holds must stay valid across later Encode/Decode calls (pooled buffers, decoder state)
var heldBin []byte
var heldAst string

func codecDecode(bin []byte) string {
	stmts, err := codec.NewDecoder(bytes.NewReader(bin)).Decode()
	if err != nil {
		return "err"
	}
	return "ok " + cxStmts(stmts)
}

// codec command:
//   src <vcl|snippet> <hex source>  ->  "ast <sexp> | enc <hex>|encerr | dec ok <sexp>|err"  or "parseerr"
//   dec <hex bytes>                 ->  "ok <sexp>" | "err"
func init() {
	register("codec", func(args string) string {
		f := strings.Fields(args)
		switch {
		case (len(f) == 3 || len(f) == 2) && f[0] == "src":
			if len(f) == 2 {
				f = append(f, "")
			}
			src, err := unhx(f[2])
			if err != nil {
				return "badreq"
			}
			stmts, err := parseSrc(f[1], src)
			if err != nil {
				return "parseerr " + strings.SplitN(err.Error(), "\n", 2)[0]
			}
			astS := cxStmts(stmts)
			bin, err := codec.NewEncoder().Encodes(stmts)
			if err != nil {
				return fmt.Sprintf("ast %s | encerr", astS)
			}
			held := "held -"
			if heldBin != nil {
				if r := safe(func(string) string { return codecDecode(heldBin) }, ""); r == "ok "+heldAst {
					held = "held ok"
				} else {
					held = "held MISMATCH"
				}
			}
			reply := fmt.Sprintf("ast %s | enc %x | dec %s | %s", astS, bin, safe(func(string) string { return codecDecode(bin) }, ""), held)
			if len(bin) < 1<<16 {
				heldBin, heldAst = bin, astS
			} else {
				heldBin = nil
			}
			return reply
		case len(f) >= 1 && f[0] == "dec":
			h := ""
			if len(f) > 1 {
				h = f[1]
			}
			bin, err := unhx(h)
			if err != nil {
				return "badreq"
			}
			return codecDecode(bin)
		}
		return "badreq"
	})
}
