"""C18 helpers: the -race build of the harness, fake plugin executables, concurrent cases."""
import os
import re
import stat
import vcommon as V


def build_race():
    """build/implrun_race = the harness with -race -tags verif against VERIF_REPO's working tree; cached by
    the same key as vcommon.build_go (tree hash + harness sources). Call under V.Lock("build")."""
    hdir = os.path.join(V.VERIF, "harness")
    exe = os.path.join(V.BUILD, "implrun_race")
    key = V.repo_tree_hash() + ":" + V._srchash([hdir]) + ":" + V.REPO
    if V._read(V._stamp("go_race")) == key and os.path.exists(exe):
        return exe
    gomod = os.path.join(hdir, "go.mod")
    old = V._read(gomod)
    reps = re.findall(r"^replace\s+(\S+\s+=>\s+\S+\s+\S+)\s*$", open(os.path.join(V.REPO, "go.mod")).read(), re.M)
    new = ("module verif/harness\n\ngo 1.25.5\n\nrequire github.com/ysugimoto/falco/v2 v2.0.0\n\n"
           "replace github.com/ysugimoto/falco/v2 => %s\n" % V.REPO + "".join("replace %s\n" % r for r in reps))
    open(gomod, "w").write(new)
    sumsrc = os.path.join(V.REPO, "go.sum")
    if os.path.exists(sumsrc):
        with open(sumsrc) as f, open(os.path.join(hdir, "go.sum"), "w") as g:
            g.write(f.read())
    try:
        env = dict(V.GOENV, CGO_ENABLED="1")
        rc, out = V.sh(["go", "build", "-race", "-tags", "verif", "-o", exe, "./cmd/implrun"], cwd=hdir, env=env, timeout=1800)
        if rc != 0:
            raise V.BuildError("go build -race implrun failed:\n" + out)
    finally:
        if old is not None and V.REPO != "/repo":
            open(gomod, "w").write(old)
    open(V._stamp("go_race"), "w").write(key)
    return exe


def plugin_dir():
    return os.path.join(V.BUILD, "c18plugins")


def write_plugin(name, messages, sleep_ms=0, kind="ok"):
    """a fake lint plugin `falco-<name>`: swallows the encoded statement, prints its diagnostics.
    kind: ok | exit1 (fails after writing to stderr) | badjson (answers garbage) | missing (no executable)"""
    d = plugin_dir()
    os.makedirs(d, exist_ok=True)
    p = os.path.join(d, "falco-" + name)
    if kind == "missing":
        if os.path.exists(p):
            os.remove(p)
        return p
    errs = ",".join('{"Severity":%d,"Message":"%s"}' % (1 + i % 3, m) for i, m in enumerate(messages))
    tail = "printf '%%s\\n' '{\"errors\":[%s]}'\n" % errs
    if kind == "exit1":
        tail = "echo %s-stderr >&2\nexit 1\n" % name
    elif kind == "badjson":
        tail = "echo 'this is not json'\n"
    txt = "#!/bin/sh\ncat > /dev/null\n%s%s" % (("sleep %s\n" % (sleep_ms / 1000.0)) if sleep_ms else "", tail)
    if V._read(p) != txt:
        with open(p, "w") as f:
            f.write(txt)
        os.chmod(p, os.stat(p).st_mode | stat.S_IXUSR | stat.S_IXGRP | stat.S_IXOTH)
    return p
