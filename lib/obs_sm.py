"""O tie of C06: every (lifecycle position, action, restarts-at-limit?) edge observed on the real
interpreter by a generated one-edge program; written as a Coq table into coq/Gen/ObsEdges.v.
Also writes coq/Gen/SMKnown.v: the edges recorded as known findings (known_findings.txt, key "edge").
Called from vcommon.regen() (after the harness build)."""
import json
import os
import vcommon as V
import sm_util as S

DNODES = ["recv", "hashL", "hashP", "hit", "miss", "pass", "fetch", "error", "deliver", "log"]
COQ_DNODE = {"recv": "DRecv", "hashL": "DHashL", "hashP": "DHashP", "hit": "DHit", "miss": "DMiss", "pass": "DPass",
             "fetch": "DFetch", "error": "DError", "deliver": "DDeliver", "log": "DLog"}
COQ_SCOPE = {s: s.capitalize() for s in S.SCOPES}
COQ_RSTATE = {"lookup": "SLookup", "pass": "SPass", "hash": "SHash", "error": "SError", "restart": "SRestart",
              "deliver": "SDeliver", "fetch": "SFetch", "deliver_stale": "SDeliverStale",
              "hit_for_pass": "SHitForPass", "end": "SEnd", "upgrade": "SUpgrade", "other": "SOther"}
# the order of Base/SMBase.v all_actions
ACTION_ORDER = ["none", "bare", "errstmt", "restartstmt", "fail", "absent"] + ["r-" + s for s in S.RSTATES]


def coq_action(a):
    return {"none": "ANone", "bare": "ABare", "errstmt": "AErrorStmt", "restartstmt": "ARestartStmt",
            "fail": "AFail", "absent": "AAbsent"}.get(a) or "(ARet %s)" % COQ_RSTATE[a[2:]]


def scope_of(n):
    return "hash" if n in ("hashL", "hashP") else n


def edge_case(n, a, at_limit, warm):
    """(variants, reqs, index of the request under test, restarts at which the edge is taken)"""
    r = S.MAXR if at_limit else 0
    lead = "none"
    if n in ("hashP", "pass"):
        lead = "r-pass"
    elif n == "error":
        lead = "errstmt"
    acts = {sc: ["none"] * 4 for sc in S.SCOPES}
    sc = scope_of(n)
    if a == "absent":
        # the subroutine under test is not defined at all; req.restarts is driven up by vcl_deliver when
        # the subroutine is vcl_recv (lookup, miss/hit, fetch, deliver -> restart), by vcl_recv otherwise
        acts[sc] = list(S.ABSENT)
        if at_limit:
            if sc == "recv":
                acts["deliver"] = ["r-restart"] * r + ["none"] * (4 - r)
            else:
                acts["recv"] = ["r-restart"] * r + [lead] * (4 - r)
        elif sc != "recv":
            acts["recv"] = [lead] * 4
    else:
        acts["recv"] = (["r-restart"] * r + [lead] * (4 - r)) if at_limit else [lead] * 4
        col = list(acts[sc])
        col[r] = a
        acts[sc] = col
    v0 = S.plain_variant(acts)
    warmv = S.plain_variant({sc: list(S.ABSENT)}) if a == "absent" else S.plain_variant()
    if warm:
        return [v0, warmv], [{"path": "/e", "v": 1}, {"path": "/e", "v": 0}], 1, r
    return [v0], [{"path": "/e", "v": 0}], 0, r


def outcome_of(res, n, r, absent_pos=None):
    """what ran after the first vcl_<scope(n)> with req.restarts = r; for a subroutine that is not defined
    `absent_pos` is the position it has in the flow of the same program with the subroutine defined and
    empty: what stands there now is what ran next"""
    if res.get("panic"):
        return None
    flows = [f[4:] for f in (res.get("flows") or []) if f.startswith("vcl_")]
    if absent_pos is not None:
        if absent_pos < len(flows):
            return ("go", flows[absent_pos])
        return ("err",) if res.get("error") else ("end",)
    rr = -1
    for i, sc in enumerate(flows):
        if sc == "recv":
            rr += 1
        if sc == scope_of(n) and rr == r:
            if i + 1 < len(flows):
                return ("go", flows[i + 1])
            return ("err",) if res.get("error") else ("end",)
    return None


def position_of(res, n, r):
    flows = [f[4:] for f in (res.get("flows") or []) if f.startswith("vcl_")]
    rr = -1
    for i, sc in enumerate(flows):
        if sc == "recv":
            rr += 1
        if sc == scope_of(n) and rr == r:
            return i
    return None


OUTPUTS = ["ObsEdges.v", "SMKnown.v"]


def observe_edges():
    impl = [os.path.join(V.BUILD, "implrun"), "sm"]
    cells, reqs = [], []
    for n in DNODES:
        for a in ACTION_ORDER:
            for lim in (False, True):
                runs = [False, True] if n == "hashL" else [n == "hit"]
                for warm in runs:
                    vs, rq, idx, r = edge_case(n, a, lim, warm)
                    _, ireq, _ = S.model_request(vs, rq)
                    cells.append((n, a, lim, warm, idx, r))
                    reqs.append(ireq)
                    if a == "absent":
                        # reference run: the same program with the subroutine defined and empty
                        for v in vs:
                            v["acts"][scope_of(n)] = ["none"] * 4
                        _, ireq2, _ = S.model_request(vs, rq)
                        cells.append((n, "absent-ref", lim, warm, idx, r))
                        reqs.append(ireq2)
    rep = V.run_batch(impl, reqs, hang_s=30)
    table = {}
    pending = None
    for (n, a, lim, warm, idx, r), out in zip(cells, rep):
        try:
            res = json.loads(out)["res"][idx]
        except (ValueError, KeyError, IndexError, TypeError):
            res = None
        if a == "absent":
            pending = (res, out)
            continue
        if a == "absent-ref":
            ares, aout = pending
            o = None
            pos = position_of(res, n, r) if res else None
            if pos is not None and ares is not None:
                # nothing but the entries of the undefined subroutine may differ before that position
                ref = [f[4:] for f in (res.get("flows") or [])]
                got = [f[4:] for f in (ares.get("flows") or [])]
                before = [x for x in ref[:pos] if x != scope_of(n)]
                if got[:len(before)] == before:
                    o = outcome_of(ares, n, r, absent_pos=len(before))
            table.setdefault((n, "absent", lim), []).append((warm, o, aout if o is None else None))
            continue
        o = outcome_of(res, n, r) if res else None
        table.setdefault((n, a, lim), []).append((warm, o, out if o is None else None))
    return table, len(reqs)


def coq_outcome(obs):
    """one cell: list of (warm, outcome, raw)"""
    if any(o is None for _, o, _ in obs):
        return None
    if len(obs) == 2:
        cold = [o for w, o, _ in obs if not w][0]
        warm = [o for w, o, _ in obs if w][0]
        if cold == ("go", "miss") and warm == ("go", "hit"):
            return "OLookup"
        if cold != warm:
            return None
        o = cold
    else:
        o = obs[0][1]
    if o[0] == "go":
        return "(OGo %s)" % COQ_SCOPE[o[1]]
    return "OEnd" if o[0] == "end" else "OErr"


def known_edges():
    out = []
    known, _ = V.load_known("C06")
    for k in known:
        e = k["key"].get("edge")
        if e:
            n, a = e.split("/")
            out.append((n, a))
    return out


def write_if_changed(path, txt):
    if V._read(path) != txt:
        with open(path, "w") as f:
            f.write(txt)


def observe(gen_dir):
    table, nruns = observe_edges()
    lines = ["(* GENERATED by lib/obs_sm.py: every (position, action, restarts-at-limit) edge observed on the real",
             "   interpreter (implrun sm, %d runs of one-edge programs); do not edit *)" % nruns,
             "From Coq Require Import List.", "From Falco Require Import Base.SMBase.", "Import ListNotations.",
             "Definition obs_edges : list (dnode * action * bool * outcome) := ["]
    rows = []
    bad = []
    for n in DNODES:
        for a in ACTION_ORDER:
            for lim in (False, True):
                o = coq_outcome(table[(n, a, lim)])
                if o is None:
                    bad.append((n, a, lim, table[(n, a, lim)]))
                    continue     # the row is missing: obs_cells_complete fails by name
                rows.append("  (%s, %s, %s, %s)" % (COQ_DNODE[n], coq_action(a), "true" if lim else "false", o))
    lines.append(";\n".join(rows))
    lines.append("].")
    write_if_changed(os.path.join(gen_dir, "ObsEdges.v"), "\n".join(lines) + "\n")
    ke = known_edges()
    txt = ("(* GENERATED by lib/obs_sm.py from known_findings.txt (property=C06, key \"edge\"); do not edit *)\n"
           "From Coq Require Import List.\nFrom Falco Require Import Base.SMBase.\nImport ListNotations.\n"
           "Definition known_edge_gaps : list (dnode * action) := [%s].\n"
           % "; ".join("(%s, %s)" % (COQ_DNODE[n], coq_action(a)) for n, a in ke))
    write_if_changed(os.path.join(gen_dir, "SMKnown.v"), txt)
    with open(os.path.join(V.BUILD, "obs_sm.json"), "w") as f:
        json.dump({"runs": nruns, "cells": len(rows), "unobservable": [
            {"node": n, "action": a, "at_limit": lim, "detail": [(w, o, (raw or "")[:300]) for w, o, raw in obs]}
            for n, a, lim, obs in bad]}, f, indent=1)
    return bad
