#!/usr/bin/env python3
"""Self-test of the C13 / C10 checks (never part of a registered command).
usage: VERIF_REPO=<repo worktree> python3 lib/store_selftest.py <C13|C10> <mutant-name> | list
Applies ONE realistic breaking (or harmless-*) edit to the repository worktree, runs the check,
prints its first lines, and restores the worktree with `git checkout -- .` (the worktree must be clean)."""
import subprocess, sys, os, time
REPO=os.environ.get('VERIF_REPO','/repo'); VERIF=os.path.dirname(os.path.dirname(os.path.abspath(__file__)))
M={
 # ---- C13
 'neg-in-place': ('interpreter/expression.go', '''			n := value.Unwrap[*value.Integer](t.Copy())
			n.Value = -n.Value
			return n, nil''', '''			t.Value = -t.Value
			return t, nil'''),
 'neg-in-place-rtime': ('interpreter/expression.go', '''			n := value.Unwrap[*value.RTime](t.Copy())
			n.Value = -n.Value
			return n, nil''', '''			t.Value = -t.Value
			return t, nil'''),
 'param-alias': ('interpreter/subroutine.go', '''		if converted == arg {
			converted = arg.Copy()
		}
''', ''),
 'header-clears-other': ('interpreter/variable/header.go', '''		sVal, _, _ := strings.Cut(val.String(), "\\n")
		r.Header.Set(name, sVal)
		r.Assign(name)
		return
	}

	if strings.EqualFold(name, "cookie") {''', '''		sVal, _, _ := strings.Cut(val.String(), "\\n")
		r.Header.Set(name, sVal)
		r.Assign(name)
		if strings.EqualFold(name, "ha") {
			r.Header.Del("hb")
		}
		return
	}

	if strings.EqualFold(name, "cookie") {'''),
 'no-regroup-restore': ('interpreter/subroutine.go', '''	defer func() {
		i.ctx.RegexMatchedValues = regex
		i.localVars = local
		i.ctx.SubroutineCalls[sub.Name.Value]++
		// Pop call stack
		i.callStack = i.callStack[:len(i.callStack)-1]
	}()

	// Try to extract fastly reserved subroutine macro''', '''	defer func() {
		_ = regex
		i.localVars = local
		i.ctx.SubroutineCalls[sub.Name.Value]++
		// Pop call stack
		i.callStack = i.callStack[:len(i.callStack)-1]
	}()

	// Try to extract fastly reserved subroutine macro'''),
 'no-locals-restore-fn': ('interpreter/subroutine.go', '''	defer func() {
		i.ctx.RegexMatchedValues = regex
		i.localVars = local
		i.ctx.SubroutineCalls[sub.Name.Value]++
		// Pop call stack
		i.callStack = i.callStack[:len(i.callStack)-1]
	}()

	var err error''', '''	defer func() {
		i.ctx.RegexMatchedValues = regex
		i.ctx.SubroutineCalls[sub.Name.Value]++
		// Pop call stack
		i.callStack = i.callStack[:len(i.callStack)-1]
	}()
	_ = local

	var err error'''),
 'assign-no-copy-compound': ('interpreter/variable/local.go', '''	// On local STRING variable assignment, always set notset to false even assign value is notset
	if str, ok := left.(*value.String); ok {
		str.IsNotSet = false
	}''', '''	// On local STRING variable assignment, always set notset to false even assign value is notset
	if str, ok := left.(*value.String); ok {
		str.IsNotSet = false
	}
	if rs, ok := val.(*value.String); ok && !rs.Literal {
		rs.IsNotSet = false
	}'''),
 'rtime-string': ('interpreter/value/value.go', '''	return strconv.FormatFloat(float64(v.Value.Milliseconds())/1000, 'f', 3, 64)''', '''	return strconv.FormatFloat(v.Value.Seconds(), 'f', 3, 64)'''),
 'switch-no-fallthrough': ('interpreter/statement.go', '''		if state == NONE && stmt.Cases[offset].Fallthrough {''', '''		if state == NONE && stmt.Cases[offset].Fallthrough && offset == 0 {'''),
 'field-clears-other': ('interpreter/variable/header.go', '''	// Handle setting RFC-8941 dictionary value
	r.Header.Set(name, setField(r.Header.Get(name), key, val, ","))
	r.Assign(name)
}

func setResponseHeaderValue''', '''	// Handle setting RFC-8941 dictionary value
	r.Header.Set(name, setField(r.Header.Get(name), key, val, ","))
	r.Assign(name)
	if strings.EqualFold(name, "ha") {
		r.Header.Del("hb")
	}
}

func setResponseHeaderValue'''),
 'call-swallows-state': ('interpreter/statement.go', '''	if state == BARE_RETURN {
		state = NONE
	}
	return state, nil
}''', '''	if state == BARE_RETURN || state == PASS {
		state = NONE
	}
	return state, nil
}'''),
 'group-no-before-hook': ('tester/tester.go', '''			if hook, ok := d.Befores[strings.ToLower("before_"+s.String())]; ok {''', '''			if hook, ok := d.Befores[strings.ToLower("before_"+s.String())]; ok && len(cases) == 0 {'''),
 'group-fresh-per-test': ('tester/tester.go', '''	for _, sub := range d.Subroutines {
		metadata := getTestMetadata(sub)
		for _, s := range metadata.Scopes {''', '''	for _, sub := range d.Subroutines {
		metadata := getTestMetadata(sub)
		i = t.setupInterpreter(defs)
		if err := i.TestProcessInit(mockRequest); err != nil {
			return cases, errors.WithStack(err)
		}
		for _, s := range metadata.Scopes {'''),
 'cache-global': ('interpreter/cache/cache.go', '''func New() *Cache {
	return &Cache{}
}''', '''var shared = &Cache{}

func New() *Cache {
	return shared
}'''),
 'tags-inverted': ('tester/tester.go', 'ALL:if metadata.Skip || (len(metadata.Tags) > 0 && !metadata.MatchTags(t.config.Tags)) {', 'if metadata.Skip || metadata.MatchTags(t.config.Tags) {'),
 # built-ins / statements with hidden effects (round 5: Gen/StoreEffects.v)
 'unset-charges-workspace': ('interpreter/statement.go', '''func (i *Interpreter) ProcessUnsetStatement(stmt *ast.UnsetStatement) error {
	var err error''', '''func (i *Interpreter) ProcessUnsetStatement(stmt *ast.UnsetStatement) error {
	var err error
	i.ctx.RequestWorkspaceBytes += 8'''),
 'strrev-writes-header': ('interpreter/function/builtin/std_strrev.go', '''	s := value.Unwrap[*value.String](args[0]).Value
''', '''	s := value.Unwrap[*value.String](args[0]).Value
	if ctx.Request != nil {
		ctx.Request.Header.Del("hb")
	}
'''),
 'header-unset-other-object': ('interpreter/function/builtin/header_unset.go', '''	case "req":
		if ctx.Request != nil {
			header_unset(ctx.Request.Header, name.Value)
		}''', '''	case "req":
		if ctx.Request != nil {
			header_unset(ctx.Request.Header, name.Value)
		}
		if ctx.BackendRequest != nil {
			header_unset(ctx.BackendRequest.Header, name.Value)
		}'''),
 'error-writes-restarts': ('interpreter/statement.go', '''func (i *Interpreter) ProcessErrorStatement(stmt *ast.ErrorStatement) error {
''', '''func (i *Interpreter) ProcessErrorStatement(stmt *ast.ErrorStatement) error {
	i.ctx.Restarts++
'''),
 # operand matrix (every type x every expression form): an operator that works on its operand in place
 'ip-equal-normalises-operand': ('interpreter/operator/operator.go', '''		if rv.IsNotSet {
			// unset IP never equals to another IP
			return &value.Boolean{Value: false}, nil
		}
		return &value.Boolean{Value: lv.Value.Equal(rv.Value)}, nil''', '''		if rv.IsNotSet {
			// unset IP never equals to another IP
			return &value.Boolean{Value: false}, nil
		}
		lv.Value = lv.Value.To16()
		lv.Value[15] &= 0xfe
		return &value.Boolean{Value: lv.Value.Equal(rv.Value)}, nil'''),
 'concat-marks-right-operand': ('interpreter/operator/operator.go', '''	return &value.String{
		Value: left.String() + right.String(),
	}, nil
}''', '''	if b, ok := right.(*value.Boolean); ok {
		b.Value = false
	}
	return &value.String{
		Value: left.String() + right.String(),
	}, nil
}'''),
 # harmless refactorings
 'harmless-reorder': ('interpreter/subroutine.go', '''	regex := i.ctx.RegexMatchedValues
	local := i.localVars
	i.ctx.RegexMatchedValues = make(map[string]*value.String)
	i.localVars = variable.LocalVariables{}

	// Validate arguments and set as local variables
	if err := i.validateAndSetParameters(sub, args); err != nil {
		return NONE, errors.WithStack(err)
	}''', '''	savedLocals := i.localVars
	regex := i.ctx.RegexMatchedValues
	i.localVars = variable.LocalVariables{}
	i.ctx.RegexMatchedValues = make(map[string]*value.String)
	local := savedLocals

	// Validate arguments and set as local variables
	if err := i.validateAndSetParameters(sub, args); err != nil {
		return NONE, errors.WithStack(err)
	}'''),
 # ---- C10
 'exit-skips': ('cmd/falco/main.go', 'ALL:if factory.Statistics.Fails > 0 {', 'if factory.Statistics.Fails > factory.Statistics.Skips {'),
 'cover-drop-else': ('interpreter/coverage.go', """	if alternative != nil {
		branch++""", """	if alternative != nil && nest == stmt {
		branch++"""),
 'shared-interp': ('tester/tester.go', [("""		var cases []*TestCase
		for _, stmt := range vcl.Statements {""", """		var cases []*TestCase
		var sharedI *interpreter.Interpreter
		var sharedInit bool
		for _, stmt := range vcl.Statements {"""), ("""				i := t.setupInterpreter(defs)

				mockRequest""", """				if sharedI == nil {
					sharedI = t.setupInterpreter(defs)
				}
				i := sharedI

				mockRequest"""), ("""				if err := i.TestProcessInit(mockRequest); err != nil {
					errChan <- errors.WithStack(err)
					return
				}
				metadata := getTestMetadata(st)""", """				if !sharedInit {
					if err := i.TestProcessInit(mockRequest); err != nil {
						errChan <- errors.WithStack(err)
						return
					}
					sharedInit = true
				}
				metadata := getTestMetadata(st)""")], None),
 'fail-once': ('tester/tester.go', """					if err != nil {
						t.counter.Fail()
					}
				}
			}
		}

		finishChan <- cases""", """					_ = err
				}
			}
		}

		finishChan <- cases"""),
 'skip-runs': ('tester/tester.go', """					if metadata.Skip || metadata.MatchTags(t.config.Tags) {
						cases = append(cases, &TestCase{
							Name:  metadata.Name,
							Scope: s.String(),
							Skip:  true,
						})
						t.counter.Skip()
						continue
					}

					start := time.Now()
					err := i.ProcessTestSubroutine(s, st)""", """					if metadata.Skip || metadata.MatchTags(t.config.Tags) {
						cases = append(cases, &TestCase{
							Name:  metadata.Name,
							Scope: s.String(),
							Skip:  true,
						})
						continue
					}

					start := time.Now()
					err := i.ProcessTestSubroutine(s, st)"""),
 'cover-switch-one-marker': ('interpreter/coverage.go', """				i.createMarker(shared.CoverageTypeBranch, stmt, fmt.Sprint(branch)),
				i.createMarker(shared.CoverageTypeBranch, c),
			},
			i.instrumentStatements(c.Statements)...,""", """				i.createMarker(shared.CoverageTypeBranch, stmt, fmt.Sprint(branch)),
			},
			i.instrumentStatements(c.Statements[:len(c.Statements)/2])...,"""),
 'harmless-tester': ('tester/tester.go', """					start := time.Now()
					err := i.ProcessTestSubroutine(s, st)
					cases = append(cases, &TestCase{
						Name:  metadata.Name,
						Error: errors.Cause(err),
						Scope: s.String(),
						Time:  time.Since(start).Milliseconds(),
						Logs:  d.stack,
					})
					if err != nil {
						t.counter.Fail()
					}""", """					begin := time.Now()
					runErr := i.ProcessTestSubroutine(s, st)
					if runErr != nil {
						t.counter.Fail()
					}
					cases = append(cases, &TestCase{
						Scope: s.String(),
						Name:  metadata.Name,
						Logs:  d.stack,
						Time:  time.Since(begin).Milliseconds(),
						Error: errors.Cause(runErr),
					})"""),
}
def main():
    if len(sys.argv) < 3:
        print("\n".join(sorted(M)))
        return
    prop, name = sys.argv[1], sys.argv[2]
    f, old, new = M[name]
    p=os.path.join(REPO,f); s=open(p).read()
    if isinstance(old, list):
        for a,b in old:
            assert s.count(a)>=1, "pattern not found: "+a[:60]
            s=s.replace(a,b,1)
    elif old.startswith('ALL:'):
        assert s.count(old[4:])>=1, "pattern not found"
        s=s.replace(old[4:],new)
    else:
        assert s.count(old)>=1, "pattern not found"
        s=s.replace(old,new,1)
    open(p,'w').write(s)
    try:
        t=time.time()
        r=subprocess.run(['bin/check',prop,'--tier','quick'],cwd=VERIF,env=dict(os.environ,VERIF_REPO=REPO),capture_output=True,text=True)
        print("== %s: exit %d, %.0fs"%(name,r.returncode,time.time()-t))
        print("\n".join((r.stdout+r.stderr).splitlines()[:12]))
    finally:
        subprocess.run(['git','checkout','--','.'],cwd=REPO)
main()
