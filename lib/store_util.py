"""helpers shared by checks/c13.py and checks/c10.py: S-expressions, rendering of raw values"""
import struct


def parse_sexps(s):
    """-> list of nested lists / atoms (str); quoted hex strings become ('q', hex)"""
    out = []
    stack = [out]
    i, n = 0, len(s)
    while i < n:
        c = s[i]
        if c in " \t":
            i += 1
        elif c == "(":
            new = []
            stack[-1].append(new)
            stack.append(new)
            i += 1
        elif c == ")":
            stack.pop()
            i += 1
        elif c == '"':
            j = s.index('"', i + 1)
            stack[-1].append(("q", s[i + 1:j]))
            i = j + 1
        else:
            j = i
            while j < n and s[j] not in " ()":
                j += 1
            stack[-1].append(s[i:j])
            i = j
    return out


def show(x):
    if isinstance(x, tuple):
        return '"%s"' % x[1]
    if isinstance(x, list):
        return "(" + " ".join(show(y) for y in x) + ")"
    return x


def render(v):
    """value.String() of a raw value sexp (['I', 'x..', '0'] ...), computed here in Python"""
    k = v[0]
    if k == "I":
        u = int(v[1][1:], 16)
        return str(u - (1 << 64) if u >= 1 << 63 else u).encode()
    if k == "F":
        return ("%.3f" % struct.unpack(">d", struct.pack(">Q", int(v[1][1:], 16)))[0]).encode()
    if k == "S":
        return b"(null)" if v[2] == "1" else bytes.fromhex(v[1][1])
    if k == "B":
        return b"1" if v[1] == "1" else b"0"
    if k == "R":
        u = int(v[1][1:], 16)
        ns = u - (1 << 64) if u >= 1 << 63 else u
        ms = abs(ns) // 10**6 * (1 if ns >= 0 else -1)
        return ("%.3f" % (ms / 1000)).encode()
    if k == "O":
        return bytes.fromhex(v[2][1])
    return None


# --------------------------------------------------------------------------- watchdogs that survive a busy machine
FAILED = ("hang", "died", "skipped")


def robust_batch(cmd, requests, hang_s=120.0, retries=2, **kw):
    """vcommon.run_batch (which already re-runs a `hang` alone with 4x the limit) plus one more layer:
    a reply `hang` / `died ...` / `skipped ...` is only kept when it reproduces once more, run ALONE in a
    fresh process with twice the no-progress limit (`died` / `skipped`: up to `retries` times); the first real
    reply wins.  A thorough run on a machine that is busy with other builds - or swapping - must not turn a
    slow reply into a finding.  Returns (replies, stats), stats = {"retried", "recovered", "reproduced"}."""
    import vcommon as V
    reps = V.run_batch(cmd, requests, hang_s=hang_s, **kw)
    stats = {"retried": 0, "recovered": 0, "reproduced": 0}
    for i, r in enumerate(reps):
        if r is None or r.startswith(FAILED):
            stats["retried"] += 1
            final = r
            for _ in range(1 if r == "hang" else retries):
                again = V.run_batch(cmd, [requests[i]], hang_s=2 * hang_s, confirm_hangs=False, **kw)[0]
                if again is not None and not again.startswith(FAILED):
                    final = again
                    break
                final = again if again is not None else final
            if final is not None and not final.startswith(FAILED):
                stats["recovered"] += 1
            else:
                stats["reproduced"] += 1
            reps[i] = final
    return reps, stats
