"""C05 helpers: the finite domains (mirrored by coq/Model/TablesDomain.v), the observation run
(tie O: `implrun c05` runs the REAL linter and the REAL simulator on every cell, batched
in-process, several processes in parallel), and the writers of coq/Gen/Obs*.v and
coq/Gen/KnownGaps.v.  Nothing here decides anything: the verdict is the Coq build."""
import json
import os
import re
import threading
import vcommon as V

SCOPES = ["recv", "hash", "hit", "miss", "pass", "fetch", "error", "deliver", "log"]
# 45 scope masks (9-bit, bit i = SCOPES[i]): the nine single scopes, then the 36 two-scope annotations
MASKS = [1 << i for i in range(9)] + [(1 << i) | (1 << j) for i in range(9) for j in range(i + 1, 9)]
ACTIONS = ["lookup", "pass", "error", "restart", "hash", "deliver", "deliver_stale", "fetch", "hit_for_pass"]
STMT_KINDS = ["restart", "error", "esi", "synthetic", "synthetic.base64"] + ["return:" + a for a in ACTIONS]
TYPES = ["INTEGER", "FLOAT", "STRING", "BOOL", "RTIME", "TIME", "IP", "BACKEND", "ACL", "header"]
ASSIGN_OPS = ["=", "+=", "-=", "*=", "/=", "%=", "|=", "&=", "^=", "<<=", ">>=", "rol=", "ror=", "&&=", "||="]
CMP_OPS = ["==", "!=", "<", ">", "<=", ">=", "~", "!~"]
FORMS = ["lit", "local", "predef", "plit", "plocal", "ppredef", "ifexp", "call",
         "dinit", "dexpr", "copy", "compound", "default", "inif"]
PROV_FORMS = ["dinit", "dexpr", "copy", "compound", "default", "inif"]
BASE_FORM = {"plit": "lit", "plocal": "local", "ppredef": "predef"}
# other spellings of a literal and a header sub-field: (variant, value type, form of the base cell)
VARIANTS = [("int-neg", "INTEGER", "lit"), ("float-neg", "FLOAT", "lit"), ("rtime-m", "RTIME", "lit"), ("rtime-h", "RTIME", "lit"),
            ("rtime-d", "RTIME", "lit"), ("rtime-y", "RTIME", "lit"), ("rtime-ms", "RTIME", "lit"), ("str-long", "STRING", "lit"),
            ("bool-false", "BOOL", "lit"), ("hdr-field", "header", "local")]
# identifiers drawn for the first ID-typed argument of a built-in (and the target of `add`): every HTTP object
# family in three shapes (header, header collection, object), declared objects, enumeration identifiers
ID_OBJECTS = ["req", "bereq", "beresp", "resp", "obj"]
ID_IDENTS = ([o + ".http.X-Verif-One" for o in ID_OBJECTS] + [o + ".headers" for o in ID_OBJECTS] + ID_OBJECTS
             + ["pb_one", "rc_one", "tbl_one", "acl_one", "be_one", "aes128", "sha256"])
COERCE_CTX = ["arg", "ret", "par"]
VALUE_TYPES = ["INTEGER", "FLOAT", "STRING", "BOOL", "RTIME", "TIME", "IP", "BACKEND", "ACL"]
DEPTHS = [1, 2, 3]
PAIR_MASKS = [(1 << i) | (1 << j) for i in range(9) for j in range(i + 1, 9)]
TRIPLE_MASKS = [m for m in range(1, 512) if bin(m).count("1") == 3]
LIT_TYPES = {"INTEGER", "FLOAT", "STRING", "BOOL", "RTIME", "BACKEND", "ACL"}
PREDEF_TYPES = {"INTEGER", "FLOAT", "STRING", "BOOL", "RTIME", "TIME", "IP", "BACKEND", "header"}
VAR_OPS = ["get", "set", "unset"]

HTTP_NAMES_QUICK = ["X-Verif-One", "x-verif-two"]
HTTP_NAMES_THOROUGH = ["X-Verif-One", "x-verif-two", "X-Verif.Three", "Cookie:verif", "x_verif_5"]
WILD = {"backend": ["be_one", "be_two"], "director": ["dr_one", "dr_two"], "ratecounter": ["rc_one", "rc_two"]}


def form_exists(ty, form):
    if form == "lit":
        return ty in LIT_TYPES
    if form == "predef":
        return ty in PREDEF_TYPES
    if form in BASE_FORM:
        return ty != "header" and form_exists(ty, BASE_FORM[form])
    if form == "call":
        return ty != "header"
    if form == "dinit":
        return ty in LIT_TYPES
    if form == "compound":
        return ty in ("INTEGER", "FLOAT", "RTIME", "TIME", "STRING", "BOOL")
    if form in PROV_FORMS:
        return ty != "header"
    return True


def op_positions():
    """bit positions of an operator / coercion row: index = 14 * value type index + form index (absent forms stay 0)"""
    return [(r, f) for r in TYPES for f in FORMS]


def instantiate(name, http_names):
    if "%any%" not in name:
        return [name]
    fam = name.split(".")[0]
    return [name.replace("%any%", w) for w in WILD.get(fam, http_names)]


def impl():
    return [os.path.join(V.BUILD, "implrun"), "c05"]


def parallel_batch(reqs, nproc=16, hang_s=30):
    """run_batch over nproc processes (requests dealt round-robin so that expensive kinds are spread;
    replies in request order)"""
    n = len(reqs)
    if n == 0:
        return []
    k = max(1, min(nproc, n // 200 + 1))
    out = [None] * k

    def work(i):
        out[i] = V.run_batch(impl(), reqs[i::k], hang_s=hang_s, max_failures=50)

    ts = [threading.Thread(target=work, args=(i,)) for i in range(k)]
    for t in ts:
        t.start()
    for t in ts:
        t.join()
    res = [None] * n
    for i in range(k):
        res[i::k] = out[i]
    return res


def listing():
    lv, lf = V.run_batch(impl(), ["listvars", "listfuncs"])
    if not lv or not lf or lv.startswith(("crash", "died", "hang")) or lf.startswith(("crash", "died", "hang")):
        raise V.BuildError("implrun c05 listvars/listfuncs failed: %s / %s" % (str(lv)[:200], str(lf)[:200]))
    vars_ = []
    for x in lv.split(";"):
        name, get, set_, unset, scopes = x.rsplit(":", 4)
        vars_.append({"name": name, "get": get, "set": set_, "unset": unset == "true", "scopes": int(scopes)})
    funcs = []
    for x in lf.split(";"):
        name, ret, sigs, scopes = x.rsplit(":", 3)
        funcs.append({"name": name, "ret": ret, "sigs": sigs.split("/") if sigs else [""], "scopes": int(scopes)})
    return vars_, funcs


class Obs:
    """rows of the four observed tables; each row carries, per position, the linter verdict, the
    simulator class and (variables) the verdict of the linter context called directly"""

    def __init__(self):
        self.vars = []    # dict(template, name, op, lint[45], interp[45], ctx[45])
        self.funcs = []   # dict(name, sig, lint[45], interp[45])
        self.stmts = []   # dict(kind, lint[45], interp[45])
        self.ops = []     # dict(op, lty, lint[80], interp[80], exists[80])
        self.cells = 0
        self.programs_run = 0
        self.bad = []     # replies that are not verdicts (died / hang / malformed)


RUNS = {"ok", "value"}    # simulator classes that count as "executes": no type / undefined / scope / arity error, no crash


def bits(flags):
    return sum(1 << i for i, b in enumerate(flags) if b)


def observe(tier="quick", only=None):
    http_names = HTTP_NAMES_THOROUGH if tier == "thorough" else HTTP_NAMES_QUICK
    vars_, funcs = listing()
    funcs = [f for f in funcs if not f["name"].startswith("testing.")]
    reqs = []
    index = []   # (table, row index, position, kind)   kind: cell | ctx
    o = Obs()
    o.http_names = http_names
    for v in vars_:
        for n in instantiate(v["name"], http_names):
            for op in VAR_OPS:
                row = {"template": v["name"], "name": n, "op": op, "lint": [None] * 45, "interp": [None] * 45, "ctx": [None] * 45}
                o.vars.append(row)
                if op == "get":
                    reqs.append("vtype " + n)
                    index.append((row, 0, "vtype"))
                for p, m in enumerate(MASKS):
                    reqs.append("cell V,%s,%s,%d" % (n, op, m))
                    index.append((row, p, "cell"))
                    reqs.append("ctxget %s %s %d" % (n, op, m))
                    index.append((row, p, "ctx"))
    for f in funcs:
        for i in range(len(f["sigs"])):
            row = {"name": f["name"], "sig": i, "lint": [None] * 45, "interp": [None] * 45}
            o.funcs.append(row)
            for p, m in enumerate(MASKS):
                reqs.append("cell F,%s,%d,%d" % (f["name"], i, m))
                index.append((row, p, "cell"))
    for k in STMT_KINDS:
        row = {"kind": k, "lint": [None] * 45, "interp": [None] * 45}
        o.stmts.append(row)
        for p, m in enumerate(MASKS):
            reqs.append("cell S,%s,%d" % (k, m))
            index.append((row, p, "cell"))
    # annotations of any width (linter only): every 3-scope mask and the 9-scope mask; thorough: all 511 masks
    wset = "all" if tier == "thorough" else "three"
    o.wide_masks = [m for m in range(1, 512) if wset == "all" or bin(m).count("1") == 3 or m == 511]
    o.wide = []   # dict(table, key..., bits)
    for r in o.vars:
        row = {"table": "vars", "name": r["name"], "op": r["op"], "bits": None}
        o.wide.append(row)
        reqs.append("wide V,%s,%s %s" % (r["name"], r["op"], wset))
        index.append((row, 0, "wide"))
    for f in funcs:
        row = {"table": "funcs", "name": f["name"], "bits": None}
        o.wide.append(row)
        reqs.append("wide F,%s,0 %s" % (f["name"], wset))
        index.append((row, 0, "wide"))
    for k in STMT_KINDS:
        row = {"table": "stmts", "name": k, "bits": None}
        o.wide.append(row)
        reqs.append("wide S,%s %s" % (k, wset))
        index.append((row, 0, "wide"))
    pos = op_positions()
    for op in ASSIGN_OPS + CMP_OPS:
        for l in TYPES:
            row = {"op": op, "lty": l, "lint": [None] * len(pos), "interp": [None] * len(pos),
                   "exists": [form_exists(r, f) for r, f in pos]}
            o.ops.append(row)
            for p, (r, f) in enumerate(pos):
                if form_exists(r, f):
                    reqs.append("cell O,%s,%s,%s,%s" % (op, l, r, f))
                    index.append((row, p, "cell"))
    # the first ID-typed argument of every built-in that has one (and the target of the add statement) drawn from every
    # identifier of ID_IDENTS, in each of the nine scopes.  The verdict of a cell is relative to the BASELINE cell of the
    # same function and scope, whose identifier is of the correct kind ("@": harness tIDArg): see idarg_verdict
    o.idargs = []
    idrows = [(f["name"], i) for f in funcs for i, sg in enumerate(f["sigs"]) if "ID" in sg.split(",")] + [("stmt:add", 0)]
    for fn, i in idrows:
        row = {"fn": fn, "sig": i, "lint": [None] * (9 * len(ID_IDENTS)), "interp": [None] * (9 * len(ID_IDENTS)),
               "msg": [None] * (9 * len(ID_IDENTS)), "base": [None] * 9}
        o.idargs.append(row)
        for sc in range(9):
            reqs.append("cellm A,%s,%d,%s,%d" % (fn, i, "req.http.X-Verif-One" if fn == "stmt:add" else "@", 1 << sc))
            index.append((row, sc, "idbase"))
        for k, idn in enumerate(ID_IDENTS):
            for sc in range(9):
                reqs.append("cellm A,%s,%d,%s,%d" % (fn, i, idn, 1 << sc))
                index.append((row, 9 * k + sc, "idcell"))
    # literal spellings / header sub-field as right operand
    o.variants = []
    for op in ASSIGN_OPS + CMP_OPS:
        for l in TYPES:
            row = {"op": op, "lty": l, "lint": [None] * len(VARIANTS), "interp": [None] * len(VARIANTS)}
            o.variants.append(row)
            for p, (vid, _, _) in enumerate(VARIANTS):
                reqs.append("cell X,%s,%s,%s" % (op, l, vid))
                index.append((row, p, "cell"))
    # provenance of the LEFT operand (right operand: literal or plain local)
    o.opsleft = []
    for op in ASSIGN_OPS + CMP_OPS:
        for l in TYPES:
            for lp in PROV_FORMS:
                if not form_exists(l, lp):
                    continue
                row = {"op": op, "lty": l, "lprov": lp, "lint": [None] * len(pos), "interp": [None] * len(pos)}
                o.opsleft.append(row)
                for p, (r, f) in enumerate(pos):
                    if f in ("lit", "local") and form_exists(r, f):
                        reqs.append("cell L,%s,%s,%s,%s,%s" % (op, l, lp, r, f))
                        index.append((row, p, "cell"))
    # a value of type T in each form where a value of type E is expected: built-in argument, return value, parameter
    o.coerce = []
    for cx in COERCE_CTX:
        for e in VALUE_TYPES:
            row = {"ctx": cx, "etype": e, "lint": [None] * len(pos), "interp": [None] * len(pos)}
            o.coerce.append(row)
            for p, (t, f) in enumerate(pos):
                if form_exists(t, f):
                    reqs.append("cell C,%s,%s,%s,%s" % (cx, e, t, f))
                    index.append((row, p, "cell"))
    # scopes obtained by call-graph inference: the use in the innermost of 1..3 un-annotated helpers reached from
    # every pair of lifecycle subroutines.  quick: one representative per accessor class / function scope class;
    # thorough: every row, and every triple of lifecycle subroutines for the representatives
    full = tier == "thorough"
    o.inferred_full = full
    seen = set()
    var_reps = []
    for v in vars_:
        key = (v["scopes"], v["get"] != "NEVER", v["set"] != "NEVER", v["unset"])
        if full or key not in seen:
            var_reps.append(v)
        seen.add(key)
    seen = set()
    func_reps = []
    for f in funcs:
        if full or f["scopes"] not in seen:
            func_reps.append(f)
        seen.add(f["scopes"])
    o.inferred = []
    uses = []
    for v in var_reps:
        for n in instantiate(v["name"], http_names):
            for op in VAR_OPS:
                uses.append(("IV", n, op))
    for f in func_reps:
        uses.append(("IF", f["name"], "0"))
    for k in STMT_KINDS:
        uses.append(("IS", k, ""))
    for kind, name, at in uses:
        for d in DEPTHS:
            row = {"kind": kind, "name": name, "at": at, "depth": d, "masks": PAIR_MASKS,
                   "lint": [None] * 36, "interp": [None] * 36}
            o.inferred.append(row)
            for p, m in enumerate(PAIR_MASKS):
                spec = "%s,%s,%s,%d,%d" % (kind, name, at, d, m) if kind != "IS" else "IS,%s,%d,%d" % (name, d, m)
                reqs.append("cell " + spec)
                index.append((row, p, "cell"))
    # triples (thorough): representatives only
    o.inferred3 = []
    if full:
        seen = set()
        rep_names = set()
        for v in vars_:
            key = (v["scopes"], v["get"] != "NEVER", v["set"] != "NEVER", v["unset"])
            if key not in seen:
                rep_names.update(instantiate(v["name"], http_names))
            seen.add(key)
        seen = set()
        for f in funcs:
            if f["scopes"] not in seen:
                rep_names.add(f["name"])
            seen.add(f["scopes"])
        for kind, name, at in uses:
            if kind != "IS" and name not in rep_names:
                continue
            row = {"kind": kind, "name": name, "at": at, "depth": 2, "masks": TRIPLE_MASKS,
                   "lint": [None] * len(TRIPLE_MASKS), "interp": [None] * len(TRIPLE_MASKS)}
            o.inferred3.append(row)
            for p, m in enumerate(TRIPLE_MASKS):
                spec = "%s,%s,%s,2,%d" % (kind, name, at, m) if kind != "IS" else "IS,%s,2,%d" % (name, m)
                reqs.append("cell " + spec)
                index.append((row, p, "cell"))
    reps = parallel_batch(reqs)
    for req, (row, p, kind), rep in zip(reqs, index, reps):
        f = (rep or "").split()
        if kind in ("idbase", "idcell"):
            head, _, msg = (rep or "").partition(" | ")
            h = head.split()
            if len(h) == 3 and h[0] in ("A", "R"):
                if kind == "idbase":
                    row["base"][p] = (h[1], msg)
                else:
                    o.cells += 1
                    row["lint"][p] = h[0] == "A"
                    row["interp"][p] = h[1]
                    row["msg"][p] = msg
                    o.programs_run += int(h[2])
            else:
                o.bad.append((req, rep))
            continue
        if kind == "wide":
            if len(f) == 2 and f[0] == "bits":
                row["bits"] = int(f[1])
                o.wide_cells = getattr(o, "wide_cells", 0) + len(o.wide_masks)
            else:
                row["bits"] = 0
                o.bad.append((req, rep))
            continue
        if kind == "vtype":
            if len(f) == 9:
                row["itype"] = f
            else:
                row["itype"] = ["-"] * 9
                o.bad.append((req, rep))
            continue
        if kind == "ctx":
            if len(f) == 2 and f[0] in ("A", "R"):
                row["ctx"][p] = f[0] == "A"
            else:
                o.bad.append((req, rep))
            continue
        o.cells += 1
        if len(f) == 3 and f[0] in ("A", "R"):
            row["lint"][p] = f[0] == "A"
            row["interp"][p] = f[1]
            o.programs_run += int(f[2])
        elif rep and rep.startswith(("died", "hang")):
            # the simulator took the whole process down (fatal error) or never answered
            row["lint"][p] = None
            row["interp"][p] = "crash"
            o.bad.append((req, rep))
        else:
            o.bad.append((req, rep))
    return o


def fresh_process_check(rng, n_random=40):
    """cells are independent programs run in long-lived harness processes: run a sample (every statement kind in every
    single scope + random cells of the other tables) once in a FRESH process per cell and once at the end of a process
    that first ran all 630 statement cells (single and two-scope, which is where shared state could be corrupted);
    returns (sample size, list of (spec, fresh reply, long-lived reply) that differ)"""
    sample = ["S,%s,%d" % (k, 1 << i) for k in STMT_KINDS for i in range(9)]
    pos = op_positions()
    for _ in range(n_random):
        kind = rng.choice("VOCI")
        if kind == "V":
            sample.append("V,%s,%s,%d" % (rng.choice(["req.url", "req.http.X-Verif-One", "beresp.ttl", "resp.status", "client.ip", "obj.status"]),
                                           rng.choice(VAR_OPS), rng.choice(MASKS)))
        elif kind == "O":
            t, f = rng.choice([c for c in pos if form_exists(*c)])
            sample.append("O,%s,%s,%s,%s" % (rng.choice(ASSIGN_OPS + CMP_OPS), rng.choice(TYPES), t, f))
        elif kind == "C":
            t, f = rng.choice([c for c in pos if form_exists(*c)])
            sample.append("C,%s,%s,%s,%s" % (rng.choice(COERCE_CTX), rng.choice(VALUE_TYPES), t, f))
        else:
            sample.append("IS,%s,%d,%d" % (rng.choice(STMT_KINDS), rng.choice(DEPTHS), rng.choice(PAIR_MASKS)))
    fresh = [None] * len(sample)

    def one(i0, step):
        for i in range(i0, len(sample), step):
            fresh[i] = V.run_batch(impl(), ["cell " + sample[i]], hang_s=30)[0]
    ts = [threading.Thread(target=one, args=(i, 12)) for i in range(12)]
    for t in ts:
        t.start()
    prefix = ["cell S,%s,%d" % (k, m) for k in STMT_KINDS for m in MASKS]
    long_lived = V.run_batch(impl(), prefix + ["cell " + c for c in sample], hang_s=30)[len(prefix):]
    for t in ts:
        t.join()
    return len(sample), [(c, a, b) for c, a, b in zip(sample, fresh, long_lived) if a != b]


def idarg_where(b):
    """every cell of an identifier-argument row: identifiers grouped by the scopes in which the cell is in the row"""
    by = {}
    for p0 in positions(b, 9 * len(ID_IDENTS)):
        by.setdefault(ID_IDENTS[p0 // 9], []).append(SCOPES[p0 % 9])
    groups = {}
    for i, sc in by.items():
        groups.setdefault(",".join(sc) if len(sc) < 9 else "every scope", []).append(i)
    return "; ".join("%s in %s" % (" / ".join(ids), sc) for sc, ids in groups.items())


def idarg_undecided(o):
    """the accepted cells whose baseline cell fails too, per function: which identifiers in which scopes, and how the
    baseline fails there (evidence only)"""
    out = []
    for r in o.idargs:
        und = [p for p in range(len(r["interp"])) if r["lint"][p] and idarg_verdict(r, p).startswith("undecided")]
        if und:
            scs = sorted({p % 9 for p in und})
            out.append({"function": r["fn"], "signature": r["sig"], "cells": len(und),
                        "identifiers": idarg_where(sum(1 << p for p in und)),
                        "baseline": {SCOPES[sc]: r["base"][sc][1] for sc in scs}})
    return out


def _norm_msg(msg):
    """a simulator message without the parts that name the identifier, the scope or a position"""
    m = re.sub(r"line: \d+, position: \d+", "", msg or "")
    for w in sorted(ID_IDENTS + ["X-Verif-One", "beresp", "resp"], key=len, reverse=True):
        m = m.replace(w, "<id>")
    return re.sub(r"\b(recv|hash|hit|miss|pass|fetch|error|deliver|log)\b", "<scope>", m, flags=re.I)


def idarg_verdict(row, p):
    """'ok'                  the cell runs;
    'counts'                 it raises an error that is attributable to the identifier: the baseline cell of the same
                             function and scope (same call, identifier of the correct kind) runs clean - or the cell
                             crashes;
    'undecided-same' / 'undecided-different'
                             the baseline cell fails too (with the same message up to the identifier / another one), e.g.
                             because no object of the kind exists in the scope: nothing about the identifier can be
                             concluded from this cell; reported in the evidence, never as a finding"""
    if row["interp"][p] == "ok":
        return "ok"
    base = row["base"][p % 9]
    if base is None or base[0] == "ok" or row["interp"][p] == "crash":
        return "counts"
    return "undecided-same" if _norm_msg(base[1]) == _norm_msg(row["msg"][p]) else "undecided-different"


def show(spec):
    return V.run_batch(impl(), ["show " + spec])[0]


# --------------------------------------------------------------------------- Coq writers

def _write(path, txt):
    old = None
    try:
        with open(path) as f:
            old = f.read()
    except OSError:
        pass
    if old != txt:
        with open(path, "w") as f:
            f.write(txt)


HEADER = ("(* GENERATED by lib/tables_util.py from the observation run `implrun c05` (real linter, real simulator); do not edit *)\n"
          "From Coq Require Import NArith List String.\nImport ListNotations.\nLocal Open Scope N_scope.\nLocal Open Scope string_scope.\n")


def cs(s):
    return '"' + s.replace('"', '""') + '"'


def lint_bits(row):
    return bits([x is True for x in row["lint"]])


def interp_bits(row):
    return bits([x in RUNS for x in row["interp"]])


def write_obs(o):
    gen = os.path.join(V.COQ, "Gen")
    os.makedirs(gen, exist_ok=True)
    b = [HEADER]
    b.append("Definition obs_http_names : list string := [%s].\n" % "; ".join(cs(x) for x in o.http_names))
    b.append("(* (template, instantiated name, operation, linter accepts, simulator executes, linter context accepts): bit p = mask p of masks45 *)\n")
    b.append("Definition obs_vars : list (string * string * string * N * N * N) := [\n")
    b.append(";\n".join("(%s, %s, %s, %d, %d, %d)" % (cs(r["template"]), cs(r["name"]), cs(r["op"]), lint_bits(r), interp_bits(r),
                                                     bits([x is True for x in r["ctx"]])) for r in o.vars))
    b.append("].\n")
    b.append("(* (instantiated name, type of the simulator's value in each of the nine scopes, \"-\" = no value) *)\n")
    b.append("Definition obs_var_types : list (string * list string) := [\n")
    b.append(";\n".join("(%s, [%s])" % (cs(r["name"]), ";".join(cs(x) for x in r["itype"])) for r in o.vars if r["op"] == "get"))
    b.append("].\n")
    _write(os.path.join(gen, "ObsVars.v"), "".join(b))
    b = [HEADER]
    b.append("(* (function, signature index, linter accepts, simulator executes) *)\n")
    b.append("Definition obs_funcs : list (string * N * N * N) := [\n")
    b.append(";\n".join("(%s, %d, %d, %d)" % (cs(r["name"]), r["sig"], lint_bits(r), interp_bits(r)) for r in o.funcs))
    b.append("].\n")
    _write(os.path.join(gen, "ObsFuncs.v"), "".join(b))
    b = [HEADER]
    b.append("(* (statement kind, linter accepts, simulator executes) *)\n")
    b.append("Definition obs_stmts : list (string * N * N) := [\n")
    b.append(";\n".join("(%s, %d, %d)" % (cs(r["kind"]), lint_bits(r), interp_bits(r)) for r in o.stmts))
    b.append("].\n")
    _write(os.path.join(gen, "ObsStmts.v"), "".join(b))
    b = [HEADER]
    b.append("(* the first ID-typed argument drawn from every identifier of idarg_idents: (function or stmt:add, signature,\n"
             "   linter accepts, the simulator raises no error ATTRIBUTABLE TO THE IDENTIFIER: the cell runs, or the baseline cell -\n"
             "   the same call with an identifier of the correct kind in the same scope - fails too): bit 9 * identifier index + scope index *)\n")
    b.append("Definition obs_idargs : list (string * N * N * N) := [\n")
    b.append(";\n".join("(%s, %d, %d, %d)" % (cs(r["fn"]), r["sig"], lint_bits(r), bits([idarg_verdict(r, p) != "counts" for p in range(len(r["interp"]))])) for r in o.idargs))
    b.append("].\n")
    _write(os.path.join(gen, "ObsIdArgs.v"), "".join(b))
    b = [HEADER]
    b.append("(* (context, expected type, linter accepts, simulator executes): bit 14 * value type index + form index *)\n")
    b.append("Definition obs_coerce : list (string * string * N * N) := [\n")
    b.append(";\n".join("(%s, %s, %d, %d)" % (cs(r["ctx"]), cs(r["etype"]), lint_bits(r), interp_bits(r)) for r in o.coerce))
    b.append("].\n")
    _write(os.path.join(gen, "ObsCoerce.v"), "".join(b))
    b = [HEADER]
    b.append("(* scopes by call-graph inference: (kind IV/IF/IS, name, operation or signature, helper chain depth, linter accepts,\n"
             "   simulator executes); bit m = the chain is called from vcl_<s> for every scope s of the compact mask m *)\n")
    b.append("Definition obs_inferred_full : bool := %s.\n" % ("true" if o.inferred_full else "false"))

    def mbits(r, key, pred):
        return sum(1 << m for m, x in zip(r["masks"], r[key]) if pred(x))
    for nm, rows in (("obs_inferred", o.inferred), ("obs_inferred3", o.inferred3)):
        b.append("Definition %s : list (string * string * string * N * N * N) := [\n" % nm)
        b.append(";\n".join("(%s, %s, %s, %d, %d, %d)" % (cs(r["kind"]), cs(r["name"]), cs(r["at"]), r["depth"],
                                                          mbits(r, "lint", lambda x: x is True), mbits(r, "interp", lambda x: x in RUNS))
                            for r in rows))
        b.append("].\n")
    _write(os.path.join(gen, "ObsInferred.v"), "".join(b))
    b = [HEADER]
    b.append("(* annotation masks of any width (compact 9-bit masks) on which the linter was observed; bit m of a row = mask m accepted *)\n")
    b.append("Definition obs_wide_masks : list N := [%s].\n" % "; ".join(str(m) for m in o.wide_masks))
    b.append("Definition obs_vars_wide : list (string * string * N) := [\n")
    b.append(";\n".join("(%s, %s, %d)" % (cs(r["name"]), cs(r["op"]), r["bits"]) for r in o.wide if r["table"] == "vars"))
    b.append("].\nDefinition obs_funcs_wide : list (string * N) := [\n")
    b.append(";\n".join("(%s, %d)" % (cs(r["name"]), r["bits"]) for r in o.wide if r["table"] == "funcs"))
    b.append("].\nDefinition obs_stmts_wide : list (string * N) := [\n")
    b.append(";\n".join("(%s, %d)" % (cs(r["name"]), r["bits"]) for r in o.wide if r["table"] == "stmts"))
    b.append("].\n")
    _write(os.path.join(gen, "ObsWide.v"), "".join(b))
    b = [HEADER]
    b.append("(* (operator, left type, linter accepts, simulator executes): bit 14 * right type index + form index *)\n")
    b.append("Definition obs_ops : list (string * string * N * N) := [\n")
    b.append(";\n".join("(%s, %s, %d, %d)" % (cs(r["op"]), cs(r["lty"]), lint_bits(r), interp_bits(r)) for r in o.ops))
    b.append("].\n")
    b.append("(* other spellings of a literal (-5, -1.5, 5m, 1h, 2d, 1y, 500ms, long string, false) and a header sub-field as right\n"
             "   operand: (operator, left type, linter accepts, simulator executes), bit = index in lit_variants *)\n")
    b.append("Definition obs_op_variants : list (string * string * N * N) := [\n")
    b.append(";\n".join("(%s, %s, %d, %d)" % (cs(r["op"]), cs(r["lty"]), lint_bits(r), interp_bits(r)) for r in o.variants))
    b.append("].\n")
    b.append("(* the same with a provenance of the LEFT operand: (operator, left type, left provenance, linter, simulator) *)\n")
    b.append("Definition obs_ops_left : list (string * string * string * N * N) := [\n")
    b.append(";\n".join("(%s, %s, %s, %d, %d)" % (cs(r["op"]), cs(r["lty"]), cs(r["lprov"]), lint_bits(r), interp_bits(r)) for r in o.opsleft))
    b.append("].\n")
    _write(os.path.join(gen, "ObsOps.v"), "".join(b))


def known_lines():
    known, _ = V.load_known("C05")
    return known


def write_known_gaps():
    """coq/Gen/KnownGaps.v from the `known: property=C05` lines: (kind, name, detail, bits)"""
    rows = []
    for k in known_lines():
        key = k["key"]
        rows.append("(%s, %s, %s, %d)" % (cs(key.get("kind", "")), cs(key.get("name", "")), cs(str(key.get("at", ""))), int(key.get("bits", 0))))
    txt = HEADER.replace("the observation run `implrun c05` (real linter, real simulator)", "the `known: property=C05` lines of known_findings.txt")
    txt += "Definition known_gaps : list (string * string * string * N) := [\n" + ";\n".join(rows) + "].\n"
    _write(os.path.join(V.COQ, "Gen", "KnownGaps.v"), txt)


def setup_hook():
    """bin/setup: coq/Gen/Obs*.v and KnownGaps.v must exist before `make all`"""
    write_obs(observe("quick"))
    write_known_gaps()


# --------------------------------------------------------------------------- gap rows (computed by Coq)

def mask_name(p):
    m = MASKS[p]
    return "+".join(SCOPES[i] for i in range(9) if m >> i & 1)


def positions(bits_, n):
    return [p for p in range(n) if bits_ >> p & 1]


GAP_PARTS = ["gaps_tables ++ gaps_func_table ++ gaps_var_types ++ gaps_funcs ++ gaps_stmts", "gaps_vars", "gaps_ops",
             "gaps_variants ++ gaps_ops_left ++ gaps_coerce ++ gaps_idargs", "gaps_wide", "gaps_inferred"]


def gap_rows():
    """the disagreeing cells as Coq computes them from the regenerated tables (Model/TablesGaps.v; the parts of
    all_gap_rows are evaluated by separate coqc processes in parallel); returns (rows, domain sizes, coqc log)"""
    head = ("From Coq Require Import NArith List String.\nFrom Falco Require Import Model.TablesGaps.\nImport ListNotations.\n"
            "Open Scope N_scope.\nOpen Scope string_scope.\nOpen Scope list_scope.\n")
    outs = [None] * (len(GAP_PARTS) + 1)

    def work(i, body):
        src = os.path.join(V.BUILD, "C05PrintGaps%d.v" % i)
        with open(src, "w") as f:
            f.write(head + body)
        outs[i] = V.sh(["timeout", "2400", "coqc", "-R", V.COQ, "Falco", "-o", os.path.join(V.BUILD, "C05PrintGaps%d.vo" % i), src],
                       cwd=V.BUILD, timeout=2430)
    ts = [threading.Thread(target=work, args=(i, "Eval vm_compute in (%s).\n" % part)) for i, part in enumerate(GAP_PARTS)]
    ts.append(threading.Thread(target=work, args=(len(GAP_PARTS), "Eval vm_compute in domain_sizes.\n")))
    for t in ts:
        t.start()
    for t in ts:
        t.join()
    if any(rc != 0 for rc, _ in outs):
        return None, None, "\n".join(out for rc, out in outs if rc != 0)
    rows = []
    for rc, out in outs[:-1]:
        t = re.sub(r"\s+", " ", out)
        rows += [{"kind": a, "name": b_, "at": c, "bits": int(d)} for a, b_, c, d in re.findall(r'\("([^"]*)", "([^"]*)", "([^"]*)", (\d+)\)', t)]
    second = re.sub(r"\s+", " ", outs[-1][1])
    sizes = {a: int(b_) for a, b_ in re.findall(r'\( ?"([^"]*)", (\d+)\)', second)}
    return rows, sizes, "\n".join(out for _, out in outs)


def first_cell(row):
    """cell spec of the first failing position of a gap row (None for table-level rows)"""
    k, n, a, b = row["kind"], row["name"], row["at"], row["bits"]
    if k.startswith("var-") and k not in ("var-table", "var-type"):
        return "V,%s,%s,%d" % (n, a, MASKS[positions(b, 45)[0]])
    if k == "var-type":
        return "V,%s,get,%d" % (n, MASKS[positions(b, 9)[0]])
    if k in ("func-interp", "func-model"):
        return "F,%s,%s,%d" % (n, a, MASKS[positions(b, 45)[0]])
    if k == "func-ref":
        return "F,%s,0,%d" % (n, MASKS[positions(b, 45)[0]])
    if k in ("var-wide-model", "func-wide-model", "stmt-wide-model", "stmt-wide-ref"):
        m = positions(b, 512)[0]
        return {"v": "V,%s,%s,%d" % (n, a, m), "f": "F,%s,0,%d" % (n, m), "s": "S,%s,%d" % (n, m)}[k[0]]
    if k.startswith("stmt-"):
        return "S,%s,%d" % (n, MASKS[positions(b, 45)[0]])
    if k.startswith("op-"):
        r, f = op_positions()[positions(b, 140)[0]]
        return "O,%s,%s,%s,%s" % (n, a, r, f)
    if k.startswith("idarg-"):
        p0 = positions(b, 9 * len(ID_IDENTS))[0]
        return "A,%s,%s,%s,%d" % (n, a, ID_IDENTS[p0 // 9], 1 << (p0 % 9))
    if k.startswith("opv-"):
        return "X,%s,%s,%s" % (n, a, VARIANTS[positions(b, len(VARIANTS))[0]][0])
    if k.startswith("opl-"):
        r, f = op_positions()[positions(b, 140)[0]]
        lty, lprov = a.split(":")
        return "L,%s,%s,%s,%s,%s" % (n, lty, lprov, r, f)
    if k.startswith("coerce-"):
        r, f = op_positions()[positions(b, 140)[0]]
        return "C,%s,%s,%s,%s" % (n, a, r, f)
    if k.startswith("inferred-"):
        kind, at, depth = a.split(":")
        m = positions(b, 512)[0]
        return "IS,%s,%s,%d" % (n, depth, m) if kind == "IS" else "%s,%s,%s,%s,%d" % (kind, n, at, depth, m)
    return None


WHAT = {
    "var-interp": "accepted by the linter, fails in the simulator",
    "func-interp": "call accepted by the linter, fails in the simulator",
    "stmt-interp": "statement accepted by the linter, fails in the simulator",
    "op-interp": "accepted by the linter, fails in the simulator",
    "var-ref": "linter verdict differs from the reference table (predefined.yml)",
    "func-ref": "linter verdict differs from the reference table (builtin.yml)",
    "stmt-ref": "linter verdict differs from the documented scopes of the statement",
    "op-ref": "linter verdict differs from the assignment type table",
    "var-type": "type of the variable differs between linter and simulator",
    "var-interp-regen": "the simulator's variable dispatch regenerated by the translator (Gen/InterpVars.v, Model/InterpVars.v) differs from the real simulator",
    "var-model": "lookup model (Model/LintTables.v) differs from the real linter",
    "func-model": "GetFunction model differs from the real linter",
    "stmt-model": "statement guard model differs from the real linter",
    "op-model": "operator model (Model/LintOps.v) differs from the real linter",
    "op-interp-model": "simulator decision model (Model/InterpAssign.v) differs from the real simulator",
    "idarg-interp": "accepted by the linter, the simulator raises an error although the same call with an identifier of the correct kind runs in the same scope",
    "opv-lint": "the linter treats this spelling of the value differently from the plain literal / header of the same type",
    "opv-interp": "the simulator treats this spelling of the value differently from the plain literal / header of the same type",
    "opl-model": "operator model differs from the real linter (left operand provenance)",
    "opl-interp-model": "simulator decision model differs from the real simulator (left operand provenance)",
    "opl-interp": "accepted by the linter, fails in the simulator (left operand provenance)",
    "coerce-model": "coercion model (Model/LintOps.v lint_coerce_model) differs from the real linter",
    "coerce-interp-model": "coercion model (Model/InterpAssign.v interp_coerce_model) differs from the real simulator",
    "coerce-interp": "accepted by the linter, fails in the simulator",
    "inferred-model": "linter verdict under inferred scopes differs from 'every inferred scope allows it'",
    "inferred-interp": "accepted by the linter under inferred scopes, fails in the simulator from one of the entry subroutines",
    "var-table": "linter/context/predefined.go differs from __generator__/predefined.yml",
    "func-table-ref": "linter/context/builtin.go differs from __generator__/builtin.yml",
    "dyn-ref": "linter/context/dynamic.go differs from __generator__/predefined.yml",
    "func-table": "interpreter/function/builtin_functions.go differs from linter/context/builtin.go (scope, CanStatementCall or ident-argument indices)",
}


def describe(row):
    k, n, a, b = row["kind"], row["name"], row["at"], row["bits"]
    if k.startswith("idarg-"):
        return "%s (signature %s) with the first identifier argument %s: %s" % (n, a, idarg_where(b), WHAT.get(k, k))
    if k.startswith("opv-"):
        return "%s %s %s [%s]: %s" % (a, n, "<value>", ", ".join(VARIANTS[p][0] for p in positions(b, len(VARIANTS))), WHAT.get(k, k))
    if k.startswith("op-") or k.startswith("opl-"):
        where = ", ".join("%s %s" % op_positions()[p] for p in positions(b, 140))
        return "%s %s %s [%s]: %s" % (a, n, "<value>", where, WHAT.get(k, k))
    if k.startswith("coerce-"):
        where = ", ".join("%s %s" % op_positions()[p] for p in positions(b, 140))
        ctx = {"arg": "built-in argument", "ret": "return value of a functional subroutine", "par": "parameter of a functional subroutine"}[n]
        return "%s of type %s given [%s]: %s" % (ctx, a, where, WHAT.get(k, k))
    if k.startswith("inferred-"):
        ms = positions(b, 512)
        return "%s (%s) in un-annotated helpers reached from %d sets of lifecycle subroutines (first: %s): %s" % (
            n, a, len(ms), "+".join(SCOPES[i] for i in range(9) if ms[0] >> i & 1), WHAT.get(k, k))
    if k == "var-type":
        return "%s: linter %s in [%s]: %s" % (n, a, ",".join(SCOPES[p] for p in positions(b, 9)), WHAT[k])
    if "-wide-" in k:
        ms = positions(b, 512)
        return "%s %s under %d annotation masks of three or more scopes (first: %s): %s" % (
            n, a, len(ms), "+".join(SCOPES[i] for i in range(9) if ms[0] >> i & 1),
            "linter differs from the documented scopes" if k.endswith("ref") else "model differs from the real linter")
    if k in ("var-table", "func-table-ref", "dyn-ref", "func-table"):
        return "%s %s: %s" % (n, a, WHAT[k])
    ps = positions(b, 45)
    single = [mask_name(p) for p in ps if p < 9]
    multi = [mask_name(p) for p in ps if p >= 9]
    where = ",".join(single) if single else ""
    if multi:
        where += (" and " if where else "") + "%d two-scope annotations (%s%s)" % (len(multi), ",".join(multi[:3]), ",..." if len(multi) > 3 else "")
    return "%s %s in [%s]: %s" % (n, a, where, WHAT.get(k, k))


if __name__ == "__main__":
    # python3 lib/tables_util.py [quick|thorough]: run the observation and write coq/Gen/Obs*.v, KnownGaps.v
    import sys
    import time
    t = time.time()
    o = observe(sys.argv[1] if len(sys.argv) > 1 else "quick")
    print("cells", o.cells, "programs run", o.programs_run, "bad", len(o.bad), "time %.1f" % (time.time() - t))
    write_obs(o)
    write_known_gaps()
