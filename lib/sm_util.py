"""C06 helpers: lifecycle programs from action tables, requests for implrun sm / modelrun_sm,
canonical projections, and the direct oracle on the implementation (documented state machine
re-stated in Python, independent of the Coq model)."""
import hashlib
import json
import urllib.parse

SCOPES = ["recv", "hash", "hit", "miss", "pass", "fetch", "error", "deliver", "log"]
RSTATES = ["lookup", "pass", "hash", "error", "restart", "deliver", "fetch", "deliver_stale", "hit_for_pass", "end", "upgrade", "other"]
# action codes: none bare errstmt restartstmt fail r-<state>
ACTIONS = ["none", "bare", "errstmt", "restartstmt", "fail"] + ["r-" + s for s in RSTATES]
# "absent": the subroutine is not defined at all (a whole column of an action table, never a single round)
ABSENT = ["absent"] * 4
MAXR = 3          # cross-checked against Gen/SMConst.v by the check
CACHEABLE = {200, 203, 300, 301, 302, 404, 410}


ERROR_CODES = [601, 601, 150, 199, 200, 404, 503, 600, 699, 700, 999]   # also < 200 and >= 600/700


def vcl_action(a, code=601):
    if a == "none":
        return ""
    if a == "bare":
        return "return;"
    if a == "errstmt":
        return "error %d;" % code
    if a == "restartstmt":
        return "restart;"
    if a == "fail":
        return 'set var.c06_undeclared = "x";'
    st = a[2:]
    return "return(%s);" % ("c06_unknown_state" if st == "other" else st)


# ---- the POSITION a state-changing statement is issued from (same action, same documented successor)
POSITIONS = ["top", "block", "ifarm", "elsearm", "switcharm", "call", "call2", "func", "funcif", "callfunc"]
CALL_POSITIONS = {"call", "call2", "func", "funcif", "callfunc"}
FUNC_POSITIONS = {"func", "funcif", "callfunc"}


def position_ok(a, pos):
    """is issuing action `a` from `pos` the same action?  `return;` inside a called subroutine only leaves that
    subroutine; in a FUNCTIONAL subroutine `return (<state>);` is not available (the linter rejects every
    parenthesised return there, the simulator evaluates the identifier and raises "undefined variable"), so only
    the statements `restart;` / `error ...;`, falling off and runtime failures are issued from there"""
    if pos == "top":
        return True
    if a == "absent":
        return False
    if a == "bare":
        return pos not in CALL_POSITIONS
    if pos in FUNC_POSITIONS:
        return not a.startswith("r-")
    return True


class Namer:
    def __init__(self):
        self.n = 0
        self.subs = []

    def fresh(self, prefix):
        self.n += 1
        return "c06_%s%d" % (prefix, self.n)


def vcl_action_at(a, pos, namer, code=601):
    """statement text that issues action `a` from position `pos`; helper subroutines go to namer.subs"""
    A = vcl_action(a, code)
    if pos == "top" or namer is None:
        return A
    if pos == "block":
        return "{ { %s } }" % A
    if pos == "ifarm":
        return "if (req.http.Host) { %s }" % A
    if pos == "elsearm":
        return "if (!req.http.Host) { } else { if (req.http.Host) { %s } }" % A
    if pos == "switcharm":
        return 'switch (req.http.Host) { case "c06-no-such-host": break; default: %s break; }' % A
    if pos == "call":
        u = namer.fresh("u")
        namer.subs.append("sub %s { %s }" % (u, A))
        return "call %s;" % u
    if pos == "call2":
        u, w = namer.fresh("u"), namer.fresh("w")
        namer.subs.append("sub %s { %s }" % (w, A))
        namer.subs.append("sub %s { if (req.http.Host) { call %s; } }" % (u, w))
        return "call %s;" % u
    if pos == "func":
        f = namer.fresh("f")
        namer.subs.append("sub %s BOOL { %s return true; }" % (f, A))
        return "call %s();" % f
    if pos == "funcif":
        f = namer.fresh("f")
        namer.subs.append("sub %s BOOL { if (req.http.Host) { %s } return true; }" % (f, A))
        return "call %s();" % f
    if pos == "callfunc":
        u, f = namer.fresh("u"), namer.fresh("f")
        namer.subs.append("sub %s BOOL { %s return true; }" % (f, A))
        namer.subs.append("sub %s { call %s(); }" % (u, f))
        return "call %s;" % u
    raise ValueError(pos)


def by_restarts(items, fmt=lambda x: x):
    """items: list indexed by req.restarts (0..MAXR) of statement text -> an if/else chain"""
    txt = [fmt(x) for x in items]
    if all(t == txt[0] for t in txt):
        return txt[0]
    out = []
    for r, t in enumerate(txt):
        cond = "if (req.restarts == %d) " % r if r < len(txt) - 1 else ""
        out.append("%s{ %s }" % (cond, t))
    return " else ".join(out)


def vcl_ops(ops):
    """rate-limit calls at the top of vcl_recv; the *h forms take the client key from a request header
    (RK / PK / PH), so that one program serves histories with many distinct keys"""
    out = []
    for o in ops:
        if o[0] == "incr":
            out.append('set var.n = ratelimit.ratecounter_increment(c06rc, "%s", %d); log "obs:" var.n;' % (o[1], o[2]))
        elif o[0] == "incrh":
            out.append('set var.n = ratelimit.ratecounter_increment(c06rc, req.http.RK, %d); log "obs:" var.n;' % o[1])
        elif o[0] == "pbadd":
            out.append('ratelimit.penaltybox_add(c06pb, "%s", %ds);' % (o[1], o[2]))
        elif o[0] == "pbaddh":
            out.append('ratelimit.penaltybox_add(c06pb, req.http.PK, %ds);' % o[1])
        elif o[0] == "pbhas":
            out.append('if (ratelimit.penaltybox_has(c06pb, "%s")) { log "obs:1"; } else { log "obs:0"; }' % o[1])
        elif o[0] == "pbhash":
            out.append('if (ratelimit.penaltybox_has(c06pb, req.http.PH)) { log "obs:1"; } else { log "obs:0"; }')
        elif o[0] == "check":   # (check, client, delta, window s, limit, ttl s)
            out.append('if (ratelimit.check_rate("%s", c06rc, %d, %d, %d, c06pb, %ds)) { log "obs:1"; } else { log "obs:0"; }'
                       % (o[1], o[2], o[3], o[4], o[5]))
    return " ".join(out)


def variant_body(v, sc, namer=None):
    """v: variant dict {acts: {scope: [a0..a3]}, ops: [ops0..ops3], hash: [h0..h3], hit_ttl: [..], fetch: [..], dead: [..]}"""
    parts = []
    if sc == "recv":
        if any(v.get("ops", [[]] * 4)):
            parts.append("declare local var.n INTEGER;")
            parts.append(by_restarts(v["ops"], vcl_ops))
        if any(v.get("dead", [False] * 4)):
            parts.append(by_restarts(v["dead"], lambda d: "set req.backend = dead;" if d else "set req.backend = origin;"))
    if sc == "hash" and any(v.get("hash", [""] * 4)):
        parts.append(by_restarts(v["hash"], lambda h: ('set req.hash += "%s";' % h) if h else ""))
    if sc == "hit" and any(v.get("hit_ttl", [0] * 4)):
        parts.append(by_restarts(v["hit_ttl"], lambda t: ("set obj.ttl = %ds;" % t) if t else ""))
    if sc == "fetch" and any(v.get("fetch", [None] * 4)):
        def f(x):
            if not x:
                return ""
            if x[0] == "ttl":
                return "set beresp.ttl = %ds;" % x[1]
            return "set beresp.cacheable = false;"
        parts.append(by_restarts(v["fetch"], f))
    pos = v.get("pos", {}).get(sc, ["top"] * 4)
    codes = v.get("errcode", {}).get(sc, [601] * 4)
    parts.append(by_restarts(list(zip(v["acts"][sc], pos, codes)), lambda ap: vcl_action_at(ap[0], ap[1], namer, ap[2])))
    return " ".join(p for p in parts if p)


def is_absent(variants, sc):
    ab = [v["acts"][sc] == ABSENT for v in variants]
    assert all(ab) or not any(ab), "a subroutine is absent for every variant or for none"
    assert all(ab) or not any("absent" in v["acts"][sc] for v in variants)
    return all(ab)


def build_vcl(variants):
    """variants: 1..n variant dicts; the request header V selects one (default 0).
    Request-level features: header Canon -> vcl_recv rewrites req.url to /canon (two URLs, one hash);
    header K -> vcl_hash adds it to req.hash (one URL, several hashes)."""
    s = ["@BACKEND@", "@DEAD@", "ratecounter c06rc {}", "penaltybox c06pb {}"]
    namer = Namer()
    for sc in SCOPES:
        if is_absent(variants, sc):
            continue
        bodies = [variant_body(v, sc, namer) for v in variants]
        hoist = ""
        if sc == "recv":
            hoist = 'if (req.http.Canon) { set req.url = "/canon"; } '
        if sc == "hash":
            hoist = "if (req.http.K) { set req.hash += req.http.K; } "
        if all(b == bodies[0] for b in bodies):
            body = hoist + bodies[0]
        else:
            # declarations must not be nested in a block twice: hoist the local of recv
            if sc == "recv" and any("declare local var.n INTEGER;" in b for b in bodies):
                hoist += "declare local var.n INTEGER; "
                bodies = [b.replace("declare local var.n INTEGER;", "") for b in bodies]
            chain = []
            for i, b in enumerate(bodies):
                cond = 'if (req.http.V == "%d") ' % i if i < len(bodies) - 1 else ""
                chain.append("%s{ %s }" % (cond, b))
            body = hoist + " else ".join(chain)
        s.append("sub vcl_%s { %s }" % (sc, body))
    return "\n".join(s[:4] + namer.subs + s[4:])


def plain_variant(acts=None):
    a = {sc: ["none"] * 4 for sc in SCOPES}
    if acts:
        for k, v in acts.items():
            a[k] = v if isinstance(v, list) else [v] * 4
    return {"acts": a, "ops": [[], [], [], []], "hash": ["", "", "", ""], "hit_ttl": [0, 0, 0, 0],
            "fetch": [None] * 4, "dead": [False] * 4}


BACKEND_TIMEOUT_MS = 5000     # .first_byte_timeout of the @BACKEND@ declaration (harness sm.go backendDecl)


def url_for(path, st=200, maxage=None, delay_ms=0):
    q = {}
    if st != 200:
        q["st"] = str(st)
    if maxage is not None:
        q["cc"] = "max-age=%d" % maxage
    if delay_ms:
        q["delay"] = str(delay_ms)      # the origin answers after that many milliseconds
    return path + ("?" + urllib.parse.urlencode(q) if q else "")


# ---------------------------------------------------------------- model request
class Interner:
    def __init__(self):
        self.ids = {}

    def __call__(self, s):
        if s not in self.ids:
            self.ids[s] = len(self.ids) + 1
        return self.ids[s]


def model_request(variants, reqs):
    """reqs: [{path, st, maxage, adv_ms, v}]  -> (model line, impl json, key names)"""
    intern = Interner()
    now = 1000000
    parts = []
    ireqs = []
    for rq in reqs:
        now += rq.get("adv_ms", 0)
        v = variants[rq.get("v", 0)]
        canon = bool(rq.get("canon")) and not is_absent(variants, "recv")
        hk = rq.get("hk", "") if not is_absent(variants, "hash") else ""
        url = url_for(rq["path"], rq.get("st", 200), rq.get("maxage"), rq.get("delay_ms", 0))
        st = rq.get("st", 200)
        timed_out = rq.get("delay_ms", 0) > BACKEND_TIMEOUT_MS and not canon
        base_ttl = (rq["maxage"] if rq.get("maxage") is not None else 120) * 1000
        full = "http://localhost" + url
        if canon:      # vcl_recv rewrote req.url: the origin sees /canon without the query string
            full, st, base_ttl = "http://localhost/canon", 200, 120000
        if hk:
            full = hashlib.sha256((full + hk).encode()).hexdigest()
        hashes, bresp, hit = [], [], []
        for r in range(MAXR + 1):
            # `set req.hash += x` replaces the hash by sha256(old ++ x) (assign.UpdateHash)
            h = v["hash"][r]
            hashes.append(intern(hashlib.sha256((full + h).encode()).hexdigest() if h else full))
            if v["dead"][r] or timed_out:
                bresp.append("x")
            else:
                c, t = st in CACHEABLE, base_ttl
                if not c:
                    t = 0    # BackendResponseTTL is only determined for cacheable statuses
                f = v["fetch"][r]
                if f and f[0] == "ttl":
                    t = f[1] * 1000
                elif f:
                    c = False
                bresp.append("(%d %d)" % (1 if c else 0, t))
            # what vcl_hit assigns to obj.ttl on this round (ctx.ObjectTTL then stays for the request)
            hit.append(str(v["hit_ttl"][r] * 1000) if v["hit_ttl"][r] else "x")
        orc = " ".join("(" + " ".join(v["acts"][sc]) + ")" for sc in SCOPES)
        ops = []
        for r in range(MAXR + 1):
            os_ = []
            for o in v["ops"][r]:
                if o[0] == "incr":
                    os_.append("(incr %d %d)" % (intern("rc:" + o[1]), o[2]))
                elif o[0] == "incrh":
                    os_.append("(incr %d %d)" % (intern("rc:" + rq["rk"]), o[1]))
                elif o[0] == "pbadd":
                    os_.append("(pbadd %d %d)" % (intern("pb:" + o[1]), o[2] * 1000))
                elif o[0] == "pbaddh":
                    os_.append("(pbadd %d %d)" % (intern("pb:" + rq["pk"]), o[1] * 1000))
                elif o[0] == "pbhas":
                    os_.append("(pbhas %d)" % intern("pb:" + o[1]))
                elif o[0] == "pbhash":
                    os_.append("(pbhas %d)" % intern("pb:" + rq["ph"]))
                elif o[0] == "check":
                    os_.append("(check %d %d %d %d %d %d)" % (intern("rc:" + o[1]), intern("pb:" + o[1]), o[2], o[3], o[4], o[5] * 1000))
            ops.append("(" + " ".join(os_) + ")")
        err = " ".join("(" + " ".join(str(c) for c in v.get("errcode", {}).get(sc, [601] * 4)) + ")" for sc in SCOPES)
        parts.append("(req %d 1 (orc %s) (hash %s) (bresp %s) (hit %s) (ops %s) (err %s))" % (
            now, orc, " ".join(map(str, hashes)), " ".join(bresp), " ".join(hit), " ".join(ops), err))
        ir = {"url": url, "adv_ms": rq.get("adv_ms", 0), "hdr": {}, "start_ms": rq.get("start_ms", 0)}
        if len(variants) > 1:
            ir["hdr"]["V"] = str(rq.get("v", 0))
        if rq.get("canon"):
            ir["hdr"]["Canon"] = "1"
        if rq.get("hk"):
            ir["hdr"]["K"] = rq["hk"]
        for fld, hdr in (("rk", "RK"), ("pk", "PK"), ("ph", "PH")):
            if rq.get(fld):
                ir["hdr"][hdr] = rq[fld]
        ireqs.append(ir)
    return ("hist %d " % now) + " ".join(parts), json.dumps({"vcl": build_vcl(variants), "reqs": ireqs}), intern.ids


def canon_impl(reply, ids):
    """JSON reply of implrun sm -> canonical text comparable with the model's"""
    d = json.loads(reply)
    out = []
    for x in d["res"]:
        if x.get("panic"):
            out.append("PANIC " + x["panic"])
            continue
        if x.get("raw") is not None and not x.get("flows") and x.get("http") != 200 and not x.get("error"):
            out.append("RAW %s" % x.get("raw"))
            continue
        flows = ",".join(f[4:] for f in (x["flows"] or []) if f.startswith("vcl_"))
        obs = ",".join(m[4:] for m in (x["logs"] or []) if m.startswith("obs:"))
        xc = x["xcache"] if x["xcache"] is not None else "-"
        xh = x["xhits"] if x.get("xhits") is not None else "-"
        # the status the client sees, compared when the response is vcl_error's synthetic object
        stt = str(x["status"]) if x.get("errobj") else "-"
        out.append("R flows=%s restarts=%d cached=%d xcache=%s xhits=%s status=%s error=%d obs=%s" % (
            flows, x["restarts"], 1 if x["cached"] else 0, xc, xh, stt, 1 if x["error"] else 0, obs))
    cache = sorted((ids.get(it["hash"], -1), 1 if it["fresh"] else 0, it["hits"]) for it in (d["cache"] or []))
    rc = sorted((ids.get("rc:" + k, -1), v) for k, v in (d["rc"].get("c06rc") or {}).items())
    pb = sorted(ids.get("pb:" + k, -1) for k in (d["pb"].get("c06pb") or []))
    out.append("P cache=%s rc=%s pb=%s" % (
        ";".join("%d:%d:%d" % t for t in cache), ";".join("%d:%d" % t for t in rc), ";".join(map(str, pb))))
    return " | ".join(out)


# ---------------------------------------------------------------- the documented machine, in Python
# node -> action -> target ; used only by the direct oracle on the implementation
def doc_next(node, a):
    ret = a[2:] if a.startswith("r-") else None
    none = a in ("none", "absent")
    err = a == "errstmt" or ret == "error"
    rst = a == "restartstmt" or ret == "restart"
    if node == "recv":
        if none or ret == "lookup":
            return "hashL"
        if ret == "pass":
            return "hashP"
        if err:
            return "error"
        if rst:
            return "RESTART"
    elif node in ("hashL", "hashP"):
        if none or ret == "hash":
            return "LOOKUP" if node == "hashL" else "pass"
    elif node == "hit":
        if none or ret == "deliver":
            return "deliver"
        if ret == "pass":
            return "pass"
        if err:
            return "error"
        if rst:
            return "RESTART"
    elif node == "miss":
        if none or ret == "fetch":
            return "fetch"
        if ret == "deliver_stale":
            return "deliver"
        if ret == "pass":
            return "pass"
        if err:
            return "error"
    elif node == "pass":
        if none or ret == "pass":
            return "fetch"
        if err:
            return "error"
    elif node == "fetch":
        if none or ret in ("deliver", "deliver_stale", "hit_for_pass", "pass"):
            return "deliver"
        if err:
            return "error"
        if rst:
            return "RESTART"
    elif node == "error":
        if none or ret in ("deliver", "deliver_stale"):
            return "deliver"
        if rst:
            return "RESTART"
    elif node == "deliver":
        if none or ret == "deliver":
            return "log"
        if rst:
            return "RESTART"
    elif node == "log":
        if none or ret == "deliver":
            return "END"
    return None


def check_flow(flows, restarts, error, acts):
    """direct oracle: is the reported flow a path of the documented machine for the action table
    `acts` (scope -> [a0..a3], or ABSENT for a subroutine that is not defined and leaves no flow entry)?
    returns None or a description of the first offence"""
    if restarts > MAXR:
        return "restarts=%d exceeds the limit %d" % (restarts, MAXR)
    n = len(flows)

    def ended(r, why):
        if not error:
            return why
        if r != restarts:
            return "reported restarts=%d but the flow re-enters vcl_recv %d times" % (restarts, r)
        return None

    def walk(node, r, i):
        sc = "hash" if node in ("hashL", "hashP") else node
        a = acts[sc][min(r, MAXR)]
        if a != "absent":
            if i >= n:
                return ended(r, "flow ends before vcl_%s without a reported error" % sc)
            if flows[i] != sc:
                return "documented next subroutine vcl_%s, observed vcl_%s (position %d)" % (sc, flows[i], i)
            i += 1
        t = doc_next(node, a)
        if t is None or (t == "RESTART" and r >= MAXR):
            if i < n:
                return "vcl_%s ended with %s (no documented successor) but vcl_%s ran next" % (sc, a, flows[i])
            return ended(r, "vcl_%s ended with %s (no documented successor) without a reported error" % (sc, a))
        if t == "END":
            if i < n:
                return "vcl_log was followed by vcl_%s" % flows[i]
            if error and a != "absent":
                return "error reported although vcl_log completed"
            if r != restarts:
                return "reported restarts=%d but the flow re-enters vcl_recv %d times" % (restarts, r)
            return None
        if t == "RESTART":
            return walk("recv", r + 1, i)
        if t == "LOOKUP":
            res = [walk("hit", r, i), walk("miss", r, i)]
            return None if None in res else res[1]
        return walk(t, r, i)
    return walk("recv", 0, 0)


# ---------------------------------------------------------------- parallel batches
def run_sharded(jobs, shards=4):
    """jobs: [(cmd, requests, hang_s)].  Every job is cut into `shards` interleaved slices, all slices of all jobs
    run at the same time (one process each); replies come back in request order.  Deterministic: which
    request goes to which process depends on its index only."""
    import threading
    import vcommon as V
    results = []
    threads = []
    for cmd, reqs, hang in jobs:
        out = [None] * len(reqs)
        results.append(out)
        for k in range(shards):
            idx = list(range(k, len(reqs), shards))
            if not idx:
                continue

            def work(cmd=cmd, idx=idx, out=out, hang=hang, reqs=reqs):
                rep = V.run_batch(cmd, [reqs[i] for i in idx], hang_s=hang)
                for i, r in zip(idx, rep):
                    out[i] = r
            t = threading.Thread(target=work)
            threads.append(t)
    for t in threads:
        t.start()
    for t in threads:
        t.join()
    return results
