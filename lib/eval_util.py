"""Shared by checks/c07.py and checks/c08.py: run operator cells through the real interpreter
(implrun evalcell) and the extracted model (modelrun_eval cell) and compare canonical results."""
import os
import vcommon as V
from gen import evalgen


def run_cells(cells, model, impl, hang_s=3.0):
    """returns list of (cell, impl_reply, model_reply, impl_canon, model_canon)"""
    ireq = [c.impl() for c in cells]
    irep = run_sharded(impl + ["evalcell"], ireq, hang_s=hang_s, mem_kb=4_000_000, max_failures=40)
    mreq = [c.model(r) for c, r in zip(cells, irep)]
    mrep = run_sharded([model], mreq, hang_s=60)
    out = []
    for c, ir, mr in zip(cells, irep, mrep):
        out.append((c, ir, mr, evalgen.canon(ir, "impl"), evalgen.canon(mr, "model")))
    return out


def classify(icanon):
    st = icanon[0]
    if st == "ok":
        return "value"
    if st == "err":
        return "error"
    if st in ("crash", "died"):
        return "crash"
    if st == "hang":
        return "hang"
    return st


def implrun():
    return [os.path.join(V.BUILD, "implrun")]


def run_sharded(cmd, requests, shards=None, **kw):
    """vcommon.run_batch over contiguous chunks of the request list in parallel worker processes (one supervising
    thread each); replies come back in request order, so the result does not depend on the number of shards."""
    import concurrent.futures
    n = len(requests)
    if shards is None:
        shards = max(1, min(8, (os.cpu_count() or 2) // 2, n // 400 + 1))
    if shards <= 1 or n < 2:
        return V.run_batch(cmd, requests, **kw)
    size = (n + shards - 1) // shards
    chunks = [requests[i:i + size] for i in range(0, n, size)]
    with concurrent.futures.ThreadPoolExecutor(max_workers=len(chunks)) as ex:
        parts = list(ex.map(lambda c: V.run_batch(cmd, c, **kw), chunks))
    out = []
    for p in parts:
        out.extend(p)
    return out
