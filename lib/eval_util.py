"""Shared by checks/c07.py and checks/c08.py: run operator cells through the real interpreter
(implrun evalcell) and the extracted model (modelrun_eval cell) and compare canonical results."""
import os
import vcommon as V
from gen import evalgen


def run_cells(cells, model, impl, hang_s=3.0):
    """returns list of (cell, impl_reply, model_reply, impl_canon, model_canon)"""
    ireq = [c.impl() for c in cells]
    irep = V.run_batch(impl + ["evalcell"], ireq, hang_s=hang_s, mem_kb=4_000_000, max_failures=40)
    mreq = [c.model(r) for c, r in zip(cells, irep)]
    mrep = V.run_batch([model], mreq, hang_s=60)
    out = []
    for c, ir, mr in zip(cells, irep, mrep):
        out.append((c, ir, mr, evalgen.canon(ir, "impl"), evalgen.canon(mr, "model")))
    return out


def classify(icanon):
    st = icanon[0]
    if st == "ok":
        return "value"
    if st == "err":
        return "error"
    if st in ("crash", "died"):
        return "crash"
    if st == "hang":
        return "hang"
    return st


def implrun():
    return [os.path.join(V.BUILD, "implrun")]
