"""Shared by checks/c03.py, c14.py, c15.py: formatter configurations, inputs, harness calls."""
import json
import os
import hashlib
import re
import vcommon as V
from gen import vclgen, decorate

# (yaml name, kind, default, other values)  -- defaults must equal config.FormatConfig's tags;
# coq/Gen/FmtConfig.v (translator) and Proofs/FmtConfigTie.v check the same list by reflexivity.
OPTIONS = [
    ("indent_width", "int", 2, [1, 4, 8]),
    ("trailing_comment_width", "int", 1, [0, 2, 4]),
    ("indent_style", "str", "space", ["tab"]),
    ("line_width", "int", 120, [-1, 1, 20, 80]),
    ("explicit_string_concat", "bool", True, [False]),
    ("sort_declaration_property", "bool", False, [True]),
    ("align_declaration_property", "bool", False, [True]),
    ("else_if", "bool", False, [True]),
    ("always_next_line_else_if", "bool", False, [True]),
    ("return_statement_parenthesis", "bool", True, [False]),
    ("sort_declaration", "bool", False, [True]),
    ("align_trailing_comment", "bool", False, [True]),
    ("comment_style", "str", "none", ["sharp", "slash"]),
    ("should_use_unset", "bool", False, [True]),
    ("indent_case_labels", "bool", False, [True]),
    ("break_compound_conditions", "bool", True, [False]),
]
DEFAULTS = {n: d for n, _, d, _ in OPTIONS}


def cj(c):
    return json.dumps(c, separators=(",", ":"), sort_keys=True)


def full(c):
    d = dict(DEFAULTS)
    d.update(c)
    return d


def single_flips():
    """the default configuration and every configuration that differs from it in one option"""
    out = [("default", {})]
    for n, _, _, others in OPTIONS:
        for v in others:
            out.append(("%s=%s" % (n, v), {n: v}))
    return out


def random_config(rng):
    c = {}
    for n, _, d, others in OPTIONS:
        if rng.random() < 0.5:
            c[n] = rng.choice(others)
    return c


def corpus(pid):
    d = os.path.join(V.VERIF, "corpus", pid)
    out = []
    if os.path.isdir(d):
        for fn in sorted(os.listdir(d)):
            if fn.endswith(".vcl"):
                conf = {}
                cf = os.path.join(d, fn[:-4] + ".json")
                if os.path.exists(cf):
                    conf = json.load(open(cf))
                out.append(("corpus/%s/%s" % (pid, fn), open(os.path.join(d, fn), "rb").read(), conf))
    return out


IMPL = os.path.join(V.BUILD, "implrun")


WORKERS = 4


def par_batch(cmd, reqs, **kw):
    """V.run_batch over WORKERS processes: the requests are dealt out by size (largest first, to the least loaded
    worker) and the replies come back in request order.  Each request is independent (the line protocol carries no
    state from one request to the next), so the split does not change any reply."""
    n = len(reqs)
    if n < 64:
        return V.run_batch(cmd, reqs, **kw)
    import concurrent.futures
    k = WORKERS
    load = [0] * k
    parts = [[] for _ in range(k)]
    for i in sorted(range(n), key=lambda i: -len(reqs[i])):
        j = load.index(min(load))
        parts[j].append(i)
        load[j] += len(reqs[i]) + 200
    for part in parts:
        part.sort()
    out = [None] * n
    with concurrent.futures.ThreadPoolExecutor(max_workers=k) as ex:
        futs = [ex.submit(V.run_batch, cmd, [reqs[i] for i in part], **kw) for part in parts]
        for part, fu in zip(parts, futs):
            for i, r in zip(part, fu.result()):
                out[i] = r
    return out


def fmt_all(pairs, hang_s=20):
    """pairs: [(config dict, source bytes)] -> parsed replies of `implrun fmt all`"""
    reqs = ["all %s %s" % (cj(c), s.hex()) for c, s in pairs]
    reps = par_batch([IMPL, "fmt"], reqs, hang_s=hang_s, max_failures=40)
    return [parse_all(r) for r in reps]


def parse_all(rep):
    """-> dict: status in {parseerr, crash, nil, hang, died, ok}; f1 bytes; det, re, ast, f2 entries"""
    d = {"raw": rep}
    if rep is None or rep.startswith(("hang", "died", "skipped")):
        d["status"] = (rep or "none").split(" ")[0]
        return d
    if rep.startswith("crash"):      # panic outside the formatter proper (parser / projection)
        d["status"] = "crash"
        d["msg"] = rep
        return d
    if rep.startswith("parseerr"):
        d["status"] = "parseerr"
        return d
    if rep.startswith("badreq"):
        raise RuntimeError("harness protocol: " + rep[:200])
    parts = rep.split(" | ")
    f = parts[0].split(" ", 2)
    if f[1] in ("crash", "nil"):
        d["status"] = f[1]
        d["msg"] = parts[0]
        return d
    d["status"] = "ok"
    d["f1"] = bytes.fromhex(f[1])
    for p in parts[1:]:
        g = p.split(" ")
        if g[0] == "det":
            d["det"] = g[1] == "same"
            if not d["det"]:
                d["f1b"] = bytes.fromhex(g[2]) if len(g) > 2 else b""
        elif g[0] == "re":
            d["re"] = g[1] == "ok"
            d["re_msg"] = " ".join(g[2:])
        elif g[0] == "ast":
            d["ast"] = g[1] == "same"
            if not d["ast"]:
                d["ast_exp"], d["ast_got"] = split_two_sexps(p[len("ast diff "):])
        elif g[0] == "f2":
            d["f2"] = g[1]
            if g[1] == "diff":
                d["f2b"] = bytes.fromhex(g[2])
            elif g[1] != "same":
                d["f2_msg"] = " ".join(g[1:])
    return d


def split_two_sexps(s):
    depth = 0
    for i, ch in enumerate(s):
        if ch == "(":
            depth += 1
        elif ch == ")":
            depth -= 1
            if depth == 0:
                return s[:i + 1], s[i + 2:]
    return s, ""


def lex_many(sources, pos=False, hang_s=20):
    reqs = [("pos " if pos else "") + s.hex() for s in sources]
    reps = par_batch([IMPL, "fmtlex"], reqs, hang_s=hang_s, max_failures=40)
    return [decorate.parse_fmtlex(r, with_pos=pos) if r is not None and not r.startswith(("hang", "died", "crash", "skipped")) else None
            for r in reps]


def first_diff(a, b):
    n = min(len(a), len(b))
    for i in range(n):
        if a[i] != b[i]:
            return i
    return n if len(a) != len(b) else -1


def sexp_diff(a, b, width=160):
    i = first_diff(a, b)
    if i < 0:
        return ""
    lo = max(0, i - 60)
    return "expected …%s… got …%s…" % (unhex_sexp(a[lo:i + width]), unhex_sexp(b[lo:i + width]))


def unhex_sexp(s):
    import re

    def f(m):
        try:
            return '"' + bytes.fromhex(m.group(1)).decode("utf-8", "replace") + '"'
        except ValueError:
            return m.group(0)
    return re.sub(r'"([0-9a-f]*)"', f, s)


# ------------------------------------------------------------------ inputs

FOCUS_SNIPPETS = [
    # constructs DESIGN section 7 names, and what the formatter prints through ast String()
    'sub f BOOL {\n  return req.http.a == "b";\n}\n',
    'sub f STRING {\n  return "a" req.http.b + "c";\n}\n',
    'sub f INTEGER {\n  return std.atoi("1" "2");\n}\n',
    'sub vcl_recv {\n  return (lookup);\n  return lookup;\n  return;\n}\n',
    'table t {\n  "a%20b": "c%25d",\n  "q%22": "x"\n}\n',
    'table t STRING {\n  "k": {"long " string"},\n  "k2": {xyz"delim"xyz}\n}\n',
    'director d random {\n  .quorum = 50%;\n  .retries = 3;\n  { .backend = F_a; .weight = 1; }\n  { .weight = 2; .backend = F_b; }\n}\n',
    'director d client {\n  .key = "a%20b";\n}\n',
    'include "a%20b";\ninclude "mod";\nimport foo;\n',
    'sub vcl_recv {\n  error;\n  error 404;\n  error 503 "a" "b";\n  error var.i;\n}\n',
    'backend b {\n  .host = "a";\n  .probe = {\n    .request = "GET / HTTP/1.1" "Host: x";\n    .interval = 1s; # t\n  }\n  .port = "80"; # p\n}\n',
    'backend b {\n  .b = 1;\n  .a = 2;\n\n  .d = 3;\n  .c = 4;\n  .probe = { .z = 1; .y = 2; }\n  .a = 5;\n}\n',
    'sub vcl_recv {\n  set req.http.X = "a" + -1;\n  set req.http.Y = "a" + +1;\n  set req.http.Z = "a" + !b;\n}\n',
    'sub vcl_recv {\n  set req.http.X = "a" "b" {"c"} req.http.D if(req.http.E, "f", "g") std.itoa(1);\n}\n',
    'sub vcl_recv {\n  if (a) { esi; } elsif (b) { esi; } elseif (c) { esi; } else if (d) { esi; } else { esi; }\n  remove req.http.X;\n  unset req.http.Y;\n}\n',
    'acl a {\n  "10.0.0.0"/8;\n  !"10.1.0.0"/16;\n  "::1";\n}\n',
    'sub vcl_recv {\n  switch (req.url) {\n  case "a":\n    esi;\n    break;\n  case ~ "b":\n    fallthrough;\n  default:\n    break;\n  }\n}\n',
    'sub vcl_recv {\n  set var.p = 10%;\n  set req.http.X = "a" + 5% + "b";\n  log 1% "x";\n  if (var.p == 10%) {\n    esi;\n  }\n}\n',
    'sub vcl_recv {\n  switch (req.url) {\n  case "a" "b":\n    break;\n  case "c" + "d" req.http.E:\n    break;\n  default:\n    break;\n  }\n}\n',
    'sub vcl_recv {\n  if (/* a */ req.http.A /* b */ && /* c */ req.http.B /* d */ || /* e */ req.http.D /* f */ && (req.http.E /* g */ || req.http.F) /* h */) {\n    esi;\n  }\n  if\n\n  /* i */ (req.http.A) {\n    esi;\n  }\n}\n',
    'sub b {\n}\nsub a {\n}\nsub vcl_log {\n}\nsub vcl_recv {\n}\nacl z {\n}\nacl y {\n}\nbackend q {\n}\ntable t {\n}\nimport x;\ninclude "i";\npenaltybox p {\n}\nratecounter r {\n}\ndirector d random {\n}\n',
]


def decl_heavy(g, rng):
    """a program made of declarations that carry properties (backend / director / table / acl)"""
    out = []
    tries = 0
    while len(out) < rng.randint(1, 3) and tries < 60:
        tries += 1
        d = g.decl()
        if d.startswith(("backend", "director", "table", "acl")) and d.count("\n") >= 4:
            out.append(d)
    return "\n".join(out)


def gather_inputs(ctx, pid, n_gen, decorated_share=0.6, density=(0.05, 0.4), line_inline_share=0.06):
    """-> list of dicts {label, src(bytes), origin, placed}.
    Dimensions (counted in ctx.dims): program shape (grammar generator, repository files, focus programs),
    literal content (gen/fmt_literals: relit on generated / repository programs, exhaustive context x feature x
    kind matrix), comments (gen/decorate: random subsets with 1-3 comments per placeholder, empty lines around
    them; exhaustive one / several comments per placeholder), declarations with property groups."""
    from gen import fmt_literals
    rng = ctx.rng
    dims = {"literals_replaced": 0, "literal_features": {}, "literal_matrix_programs": 0, "programs_relit": 0,
            "programs_decorated": 0, "multi_comment_placeholders_random": 0, "decl_heavy_programs": 0}
    items = []
    for label, data, conf in corpus(pid):
        items.append({"label": label, "src": data, "origin": "corpus", "conf": conf})
    for path, data in vclgen.repo_vcl_files(V.REPO):
        items.append({"label": path, "src": data, "origin": "repo"})
    for i, s in enumerate(FOCUS_SNIPPETS):
        items.append({"label": "focus-%d" % i, "src": s.encode(), "origin": "focus"})
    g = vclgen.Gen(rng, max_depth=4)
    base = []
    for i in range(n_gen):
        g.max_depth = rng.choice([2, 3, 4, 5])
        if i % 6 == 5:
            base.append({"label": "gen-%d" % i, "src": decl_heavy(g, rng).encode(), "origin": "decl"})
            dims["decl_heavy_programs"] += 1
        else:
            base.append({"label": "gen-%d" % i, "src": g.program(rng.randint(1, 5)).encode(), "origin": "gen"})
    ctx.gen_stats = g.stats
    items += base
    # ---- literal content: rewrite the string literals of generated and repository programs
    todo = [b for b in base if rng.random() < 0.5] + [it for it in items if it["origin"] == "repo" and rng.random() < 0.5]
    toks = lex_many([b["src"] for b in todo], pos=True)
    relit_items = []
    for b, tk in zip(todo, toks):
        if tk is None:
            continue
        try:
            text = b["src"].decode("utf-8")
        except UnicodeDecodeError:
            continue
        out, st = fmt_literals.relit(rng, text, tk, share=rng.choice([0.3, 0.6, 1.0]))
        if out is None:
            continue
        dims["programs_relit"] += 1
        for k, v in st.items():
            if k.startswith("kind:"):
                continue
            dims["literal_features"][k] = dims["literal_features"].get(k, 0) + v
            dims["literals_replaced"] += v
        relit_items.append({"label": b["label"] + "+lit", "src": out.encode(), "origin": b["origin"] + "+lit"})
    items += relit_items
    # ---- comments: decorate a share of everything above (except the corpus)
    cands = [it for it in items if it["origin"] != "corpus"]
    todo = [it for it in cands if rng.random() < (decorated_share if it["origin"] not in ("focus",) else 1.0)]
    toks = lex_many([b["src"] for b in todo], pos=True)
    dec = decorate.Decorator(rng)
    ctx.decorator = dec
    failed = 0
    for b, tk in zip(todo, toks):
        if tk is None:
            continue
        try:
            text = b["src"].decode("utf-8")
        except UnicodeDecodeError:
            continue
        line_inline = rng.random() < line_inline_share
        heavy = b["origin"].startswith("decl")
        dec.hostile = rng.choice([0.0, 0.0, 0.3, 0.7])       # share of comments with a text of the hostile alphabet
        out, placed = dec.decorate(text, tk, density=rng.uniform(0.3, 0.8) if heavy else rng.uniform(*density),
                                   blank_lines=rng.choice([0.3, 0.5]) if heavy else rng.choice([0, 0.1, 0.3, 0.5]),
                                   line_inline=line_inline, multi=rng.choice([0.0, 0.3, 0.6, 0.9]))
        if out is None:
            failed += 1
            continue
        dims["programs_decorated"] += 1
        dims["multi_comment_placeholders_random"] += dec.multi_slots
        if rng.random() < 0.06:
            # not a documented placeholder: comments on their own lines behind the last declaration
            extra = "".join(dec.text("leading")[0] + "\n" for _ in range(rng.choice([1, 2])))
            out = out.rstrip("\n") + "\n" + rng.choice(["", "\n"]) + extra
            if dec.twin is not None:
                dec.twin = dec.twin.rstrip("\n") + "\n" + extra
            dims["programs_with_comments_behind_the_last_token"] = dims.get("programs_with_comments_behind_the_last_token", 0) + 1
        it = {"label": b["label"] + "+comments", "src": out.encode(), "origin": b["origin"] + "+dec", "placed": placed,
              "base": b}
        items.append(it)
        if dec.twin is not None:
            # the same program with every line comment that sits between two tokens of a statement rewritten
            # in block style: used to attribute a failure to the known finding "line-comment-inline"
            it["inline_line_comments"] = dec.inline_line
            it["twin"] = {"label": b["label"] + "+comments(twin)", "src": dec.twin.encode(), "origin": b["origin"] + "+dec",
                          "placed": placed, "base": b}
            items.append(it["twin"])
    ctx.decorate_failed = failed
    # ---- exhaustive: one literal of every feature x kind in every context that takes a string
    for cx, feature, kind, text in fmt_literals.matrix():
        items.append({"label": "literal:%s:%s:%s" % (cx, feature, kind), "src": text.encode(), "origin": "literal"})
        dims["literal_matrix_programs"] += 1
    # ---- exhaustive: one comment, then 2-3 comments in mixed styles / positions, at every documented placeholder
    ttoks = lex_many([decorate.TEMPLATE.encode()], pos=True)[0]
    n_slot = 0
    n_slot_multi = 0
    if ttoks is not None:
        for name, kind, style, text, twin in decorate.one_comment_per_slot(rng, ttoks):
            it = {"label": "slot:%s:%s" % (name, style), "src": text.encode(), "origin": "slot", "slot": name}
            items.append(it)
            dec.stats[name] = dec.stats.get(name, 0) + 1
            n_slot += 1
            if twin is not None:
                it["inline_line_comments"] = 1
                it["twin"] = {"label": "slot:%s:%s(twin)" % (name, style), "src": twin.encode(), "origin": "slot", "slot": name}
                items.append(it["twin"])
        for name, kind, pat, text, twin in decorate.several_comments_per_slot(rng, ttoks):
            it = {"label": "slots:%s:%s" % (name, pat), "src": text.encode(), "origin": "slots", "slot": name}
            items.append(it)
            dec.stats_multi[name] = dec.stats_multi.get(name, 0) + 1
            n_slot_multi += 1
            if twin is not None:
                it["inline_line_comments"] = 1
                it["twin"] = {"label": "slots:%s:%s(twin)" % (name, pat), "src": twin.encode(), "origin": "slots", "slot": name}
                items.append(it["twin"])
    dims["one_comment_per_placeholder_programs"] = n_slot
    dims["several_comments_per_placeholder_programs"] = n_slot_multi
    # ---- comment TEXT: one comment of a hostile class (multi-line blocks, line comments that end in */ or \\, code,
    # empty, > 4 KiB, tabs, multi-byte ...) at one placeholder.  Quick: every placeholder of TEMPLATE x one class
    # of each family (rotating over the placeholders) and every placeholder of the condition / branch template x
    # EVERY class; thorough: everything x every class.
    body_stats = dict(dec.body_stats)
    n_h = n_hc = 0

    def add_hostile(origin, rows):
        n = 0
        for name, kind, cls, text, twin in rows:
            it = {"label": "%s:%s:%s" % (origin, name, cls), "src": text.encode(), "origin": origin, "slot": name}
            items.append(it)
            body_stats[cls] = body_stats.get(cls, 0) + 1
            n += 1
            if twin is not None:
                it["inline_line_comments"] = 1
                it["twin"] = {"label": it["label"] + "(twin)", "src": twin.encode(), "origin": origin, "slot": name}
                items.append(it["twin"])
        return n
    if ttoks is not None:
        n_h = add_hostile("hslot", decorate.hostile_comment_per_slot(rng, ttoks, per_slot=None if ctx.thorough() else 1))
    ctoks = lex_many([decorate.TEMPLATE_COND.encode()], pos=True)[0]
    if ctoks is not None:
        branch = lambda name: name.startswith(("if.", "elseif.", "else.", "block.trailing", "block.infix"))
        n_hc = add_hostile("hcond", decorate.hostile_comment_per_slot(
            rng, ctoks, template=decorate.TEMPLATE_COND, only=None if ctx.thorough() else branch,
            all_line_inline=ctx.thorough()))
    # ---- scale: very long tokens / lines (4 KiB ... 200 KiB), hundreds of operands / statements / entries
    from gen import fmt_scale
    srows = fmt_scale.programs(rng, ctx.thorough())
    for lab, text in srows:
        items.append({"label": lab, "src": text.encode(), "origin": "scale"})
    dims["scale_programs"] = len(srows)
    dims["scale_largest_input_bytes"] = max([len(t) for _, t in srows] + [0])
    dims["scale_inputs_with_a_line_of_64KiB_or_more"] = sum(
        1 for _, t in srows if max(len(x) for x in t.split("\n")) >= 65536 or any(
            len(m) >= 65536 for m in re.findall(r'\{"[^"]*"\}', t)))
    # ---- shapes: every chain / list shape (if + k else-if +- else in every spelling, switch with 1..3 cases +- default,
    # sub with 0..2 statements, declarations with 0..3 properties, files of 1..3 declarations) x one comment at
    # every placeholder of the shape (block / line style, own line / line of the previous token): exhaustive
    from gen import fmt_shapes
    shp = fmt_shapes.shapes()
    stoks = lex_many([t.encode() for _, t in shp], pos=True)
    n_shape = n_shape_bad = 0
    for (lab, text), tk in zip(shp, stoks):
        items.append({"label": "shape:" + lab, "src": text.encode(), "origin": "shape"})
        if tk is None:
            n_shape_bad += 1
            continue
        for name, kind, variant, ptext, twin in decorate.comment_at_every_slot(rng, text, tk):
            it = {"label": "shape:%s:%s:%s" % (lab, name, variant), "src": ptext.encode(), "origin": "shape", "slot": name}
            items.append(it)
            dec.stats[name] = dec.stats.get(name, 0) + 1
            n_shape += 1
            if twin is not None:
                it["inline_line_comments"] = 1
                it["twin"] = {"label": it["label"] + "(twin)", "src": twin.encode(), "origin": "shape", "slot": name}
                items.append(it["twin"])
    dims["shape_programs"] = len(shp)
    dims["shape_programs_not_lexed"] = n_shape_bad
    dims["shape_x_placeholder_programs"] = n_shape
    # ---- runs of 0..8 empty / blank-only / tab-only lines at every place where text passes through verbatim or
    # through the empty-line squeezing (gen/fmt_blank): exhaustive
    from gen import fmt_blank
    brows = fmt_blank.programs()
    for lab, text in brows:
        items.append({"label": lab, "src": text.encode(), "origin": "blank"})
    dims["blank_line_run_programs"] = len(brows)
    dims["hostile_text_per_placeholder_programs"] = n_h
    dims["hostile_text_condition_template_programs"] = n_hc
    dims["hostile_text_classes"] = body_stats
    ctx.slot_items = n_slot
    ctx.dims = dims
    return items


# ------------------------------------------------------------------ shrinking

def shrink(src, conf, pred, budget=6000):
    """greedy structure-aware reduction of a source text (bytes): remove brace-balanced line ranges,
    then single space-separated words, keeping pred(fmt_all result) true (unparseable candidates fail)."""
    calls = [0]

    def test(cands):
        calls[0] += len(cands)
        res = fmt_all([(conf, c) for c in cands])
        return [r["status"] != "parseerr" and bool(pred(r)) for r in res]

    def balanced_ranges(lines):
        out = []
        n = len(lines)
        for i in range(n):
            depth = 0
            for j in range(i, min(n, i + 400)):
                depth += lines[j].count(b"{") - lines[j].count(b"}")
                if depth < 0:
                    break
                if depth == 0:
                    out.append((i, j + 1))
                    if j > i:
                        break
        out.sort(key=lambda ab: -(ab[1] - ab[0]))
        return out

    def greedy(parts, join, ranges_of):
        progress = True
        while progress and calls[0] < budget:
            progress = False
            rs = ranges_of(parts)
            for k in range(0, len(rs), 64):
                chunk = rs[k:k + 64]
                oks = test([join(parts[:a] + parts[b:]) for a, b in chunk])
                hit = next((x for x, ok in enumerate(oks) if ok), None)
                if hit is not None:
                    a, b = chunk[hit]
                    parts = parts[:a] + parts[b:]
                    progress = True
                    break
                if calls[0] >= budget:
                    break
        return parts

    lines = [ln for ln in src.split(b"\n")]
    lines = greedy(lines, lambda p: b"\n".join(p), balanced_ranges)
    cur = b"\n".join(lines)
    import re
    words = re.split(rb"( +|\n)", cur)
    if len(words) < 600:
        words = greedy(words, lambda p: b"".join(p), lambda ps: [(i, i + 1) for i in range(len(ps)) if ps[i].strip()])
        cur = b"".join(words)
    return cur


# ------------------------------------------------------------------ the extracted model

FIELD_ORDER = [n for n, _, _, _ in OPTIONS]


def model_conf(c):
    f = full(c)
    out = []
    for n in FIELD_ORDER:
        v = f[n]
        out.append(("1" if v else "0") if isinstance(v, bool) else str(v))
    return ",".join(out)


def tok_str(t):
    if t["k"] == "C":
        return "C:%s:%s" % ("1" if t["lf"] else "0", t["lit"].encode("utf-8", "surrogateescape").hex())
    return "T:%s:%s" % (t["ty"], t["lit"].encode("utf-8", "surrogateescape").hex())


def model_norm(model_exe, pairs, cmd="norm", hang_s=60):
    """pairs: [(config dict, raw fmtlex reply string)] -> replies of the extracted model"""
    reqs = ["%s %s %s" % (cmd, model_conf(c), toks) for c, toks in pairs]
    return par_batch([model_exe], reqs, hang_s=hang_s, mem_kb=8_000_000)


def lex_raw(sources, hang_s=20):
    """raw fmtlex replies (strings) - what is passed to the model unchanged"""
    return par_batch([IMPL, "fmtlex"], [s.hex() for s in sources], hang_s=hang_s, max_failures=40)


def strip_flags(raw):
    """token string without the line-feed bit of comments (layout, not compared)"""
    return " ".join(("C:_:" + t[4:]) if t.startswith("C:") else t for t in raw.split(" ") if t)


# ------------------------------------------------------------------ the pipeline shared by C03 / C14 / C15

def py_restyle(style, text):
    """independent re-statement of the documented comment_style rewrite (for the implementation-only oracle)"""
    if text.startswith("#FASTLY") or style == "none" or text.startswith("/*"):
        return text
    if style == "sharp" and text.startswith("//"):
        n = len(text) - len(text.lstrip("/"))
        return "#" * n + text[n:]
    if style == "slash" and text.startswith("#"):
        n = len(text) - len(text.lstrip("#"))
        return "/" * max(n, 2) + text[n:]
    return text


def parse_raw(raw):
    out = []
    for t in (raw or "").split(" "):
        if not t:
            continue
        f = t.split(":")
        out.append((f[0], f[1], bytes.fromhex(f[2]).decode("utf-8", "replace")))
    return out


def documented_comments(toks):
    """the comments the formatter has to keep: ALL of them (since the repair of the comments behind the last
    declaration also those on their own lines after the last token, and those of a file without a token)"""
    return [t[2] for t in toks if t[0] == "C"]


def token_runs(sig):
    """sorted runs of (type, literal) cut behind every ; , { } : invariant under a permutation of properties"""
    runs, cur = [], []
    for t in sig:
        cur.append(t)
        if t[0] in ("SEMICOLON", "COMMA", "LEFT_BRACE", "RIGHT_BRACE"):
            runs.append(tuple(cur))
            cur = []
    if cur:
        runs.append(tuple(cur))
    return sorted(runs)


def tail_comments(toks):
    """comments behind the last significant token from the first one that starts a line (not a documented
    placeholder: `} <comment>` is the comment on the line of the brace): counted as a dimension"""
    last_sig = max([i for i, t in enumerate(toks) if t[0] == "T"], default=-1)
    if last_sig < 0:
        return []
    rest = toks[last_sig + 1:]
    k = next((j for j, t in enumerate(rest) if t[0] == "C" and t[1] != "0"), len(rest))
    return [t[2] for t in rest[k:] if t[0] == "C"]


def show_toks(ts, k, width=6):
    return " ".join("%s‹%s›" % (t[1] if t[0] == "T" else "COMMENT", t[2][:30]) for t in ts[max(0, k - width):k + width])


# options whose combination matters for declarations (grouping, sorting, alignment, comments)
DECL_OPTION_PAIRS = [("sort_declaration_property", True), ("align_declaration_property", True), ("align_trailing_comment", True),
                     ("sort_declaration", True), ("comment_style", "slash"), ("trailing_comment_width", 4)]
LITERAL_CONFS = [("default", {}), ("narrow+tab+align", {"line_width": 20, "indent_style": "tab", "align_trailing_comment": True}),
                 ("unlimited+juxtaposed", {"line_width": -1, "explicit_string_concat": False, "break_compound_conditions": False})]
def _cube(names):
    out = []
    for m in range(1 << len(names)):
        c = {n: bool(m >> k & 1) for k, n in enumerate(names)}
        out.append(("cube:" + "".join("1" if c[n] else "0" for n in names), c))
    return out


BOOL_CUBES = _cube(["explicit_string_concat", "else_if", "return_statement_parenthesis", "should_use_unset",
                    "break_compound_conditions"]) + \
    _cube(["sort_declaration", "sort_declaration_property", "align_declaration_property", "align_trailing_comment"])
BLANK_CONFS = [("default", {}), ("align+tab+sharp", {"align_trailing_comment": True, "indent_style": "tab", "comment_style": "sharp",
                                                       "trailing_comment_width": 3, "align_declaration_property": True}),
               ("sort+sortprop+narrow+slash", {"sort_declaration": True, "sort_declaration_property": True, "line_width": 30,
                                               "comment_style": "slash", "indent_width": 4})]
SCALE_CONFS = [("default", {}), ("unlimited+juxtaposed", {"line_width": -1, "explicit_string_concat": False}),
               ("tab+align+sort+no-break+narrow", {"indent_style": "tab", "align_trailing_comment": True, "line_width": 40,
                                                   "sort_declaration_property": True, "break_compound_conditions": False,
                                                   "align_declaration_property": True})]
COND_CONFS = [("default", {}), ("no-break+narrow", {"break_compound_conditions": False, "line_width": 30}),
              ("tab+next-line-else+sharp", {"indent_style": "tab", "always_next_line_else_if": True, "comment_style": "sharp",
                                            "else_if": True})]
SLOT_CONFS = [("default", {}), ("comment_style=slash", {"comment_style": "slash"}),
              ("align+tab+narrow", {"align_trailing_comment": True, "indent_style": "tab", "line_width": 20,
                                    "align_declaration_property": True})]


def option_pairs():
    out = []
    for i in range(len(DECL_OPTION_PAIRS)):
        for j in range(i + 1, len(DECL_OPTION_PAIRS)):
            (a, va), (b, vb) = DECL_OPTION_PAIRS[i], DECL_OPTION_PAIRS[j]
            out.append(("%s+%s" % (a, b), {a: va, b: vb}))
    return out


def plan_pairs(ctx, items, n_random):
    rng = ctx.rng
    flips = single_flips()
    pairs_conf = option_pairs()
    pairs = []
    twins = set(id(it["twin"]) for it in items if it.get("twin"))
    for it in items:
        if id(it) in twins:
            continue          # planned with its original, under the same configurations
        o = it["origin"]
        confs = []
        if o == "corpus":
            confs.append(("stored", it.get("conf", {})))
        if o in ("slot", "slots", "hslot"):
            confs += SLOT_CONFS
        elif o == "hcond":
            confs += COND_CONFS
        elif o == "scale":
            confs += SCALE_CONFS
        elif o == "blank":
            confs += BLANK_CONFS
        elif o == "shape":
            alt = (SLOT_CONFS[1:] + COND_CONFS[1:])
            confs += [("default", {}), alt[len(pairs) % len(alt)]]
        elif o == "literal":
            confs += LITERAL_CONFS
        elif o in ("repo", "focus", "corpus"):
            confs += flips                      # exhaustive: every single-option flip
            if o != "repo":
                confs += pairs_conf
            if o == "focus":
                confs += BOOL_CUBES             # all 2^5 + 2^4 values of the two groups of interacting boolean options
                # line width boundaries for chunking: every width from 1 to the longest source line + 2
                longest = max(len(x) for x in it["src"].decode("utf-8", "replace").split("\n"))
                confs += [("line_width=%d" % w, {"line_width": w}) for w in range(1, min(longest + 3, 160))]
        elif o.startswith("decl"):
            confs.append(("default", {}))
            confs += pairs_conf                 # every pair of the declaration options
            for _ in range(n_random):
                c = random_config(rng)
                confs.append((cj(c), c))
        elif o.startswith(("repo", "focus")):   # repository / focus programs with literals or comments added
            confs.append(("default", {}))
            confs += rng.sample(flips[1:], 4)
            c = random_config(rng)
            confs.append((cj(c), c))
        else:
            confs.append(("default", {}))
            for _ in range(n_random):
                c = random_config(rng)
                confs.append((cj(c), c))
        for lab, c in confs:
            pairs.append((it, lab, c))
        if it.get("twin"):
            for lab, c in confs:
                pairs.append((it["twin"], lab, c))
    return pairs


class Pipeline:
    """runs everything once; each check reports the aspects it owns"""

    def __init__(self, ctx, pid, n_gen, n_random):
        self.ctx = ctx
        self.pid = pid
        # the three checks share this pipeline: each gets its own stream derived from VERIF_SEED
        ctx.rng.seed("%d/%s" % (ctx.seed, pid))
        with V.Lock("build"):
            self.model = V.driver("fmt")
        self.items = gather_inputs(ctx, pid, n_gen)
        self.pairs = plan_pairs(ctx, self.items, n_random)
        self.res = fmt_all([(c, it["src"]) for it, _, c in self.pairs])
        raws = lex_raw([it["src"] for it in self.items])
        self.raw_in = {id(it): r for it, r in zip(self.items, raws)}
        self.ok = [i for i, r in enumerate(self.res) if r["status"] == "ok"]
        outs = lex_raw([self.res[i]["f1"] for i in self.ok])
        self.raw_out = dict(zip(self.ok, outs))
        # the token model does not cover sort_declaration_property (empty-line groups are layout): those pairs are
        # compared up to the order of the properties (multiset of the token runs between ; , { }) - see _judge
        self.modelled = [i for i in self.ok if self.raw_in[id(self.pairs[i][0])] is not None]
        self.perm_only = set(i for i in self.modelled if full(self.pairs[i][2])["sort_declaration_property"])
        mrep = model_norm(self.model, [(self.pairs[i][2], self.raw_in[id(self.pairs[i][0])]) for i in self.modelled])
        self.model_out = dict(zip(self.modelled, mrep))
        self.index = {}
        for i, (it, lab, c) in enumerate(self.pairs):
            self.index[(id(it), cj(c))] = i
        self.fail = {}     # pair index -> list of (aspect, text, details)
        self.n_string_tokens = self.n_multiline_strings = self.n_trailing_blank_strings = 0
        self.n_tail_inputs = 0
        self.n_ml_comments = self.n_long_comments = self.n_line_comments_ending_in_block_end = self.n_empty_comments = 0
        self.max_token_bytes = self.max_output_line_bytes = 0
        self.parseerr_by_origin = {}
        self._judge()

    def add(self, i, aspect, text, details=None):
        self.fail.setdefault(i, []).append((aspect, text, details or {}))

    def _judge(self):
        self.stats = {"pairs": len(self.pairs), "parseerr": 0, "formatted": len(self.ok), "model_compared": 0,
                      "model_agree": 0, "comments_checked": 0, "comments_total": 0, "ast_same": 0, "f2_same": 0,
                      "det_same": 0, "skipped_sort_property_for_model": len(self.ok) - len(self.modelled),
                      "model_compared_up_to_property_order": len(self.perm_only)}
        unparseable = set(id(self.pairs[i][0]) for i, r in enumerate(self.res) if r["status"] == "parseerr")
        for i, r in enumerate(self.res):
            it, lab, c = self.pairs[i]
            stt = r["status"]
            if stt == "parseerr":
                self.stats["parseerr"] += 1
                self.parseerr_by_origin[it["origin"]] = self.parseerr_by_origin.get(it["origin"], 0) + 1
                # (a program the generator made invalid before decorating, e.g. two equal case labels, is not the comment's fault)
                if it["origin"].endswith("+dec") and id(it.get("base")) not in unparseable:
                    self.add(i, "decorated-unparseable", "a comment at a documented placeholder makes the program unparseable")
                continue
            if stt != "ok":
                self.add(i, "crash", "formatter %s: %s" % (stt, r.get("msg", r.get("raw", ""))[:200]))
                continue
            if not r["det"]:
                self.add(i, "det", "the same source formatted twice in one process gives different bytes")
            else:
                self.stats["det_same"] += 1
            if not r["re"]:
                self.add(i, "reparse", "formatted text does not parse: " + r["re_msg"][:160])
            elif not r["ast"]:
                self.add(i, "ast", "tree of the formatted text differs: " + sexp_diff(r["ast_exp"], r["ast_got"]))
            else:
                self.stats["ast_same"] += 1
            if r.get("f2") == "same":
                self.stats["f2_same"] += 1
            elif r.get("f2") is not None:
                a = r["f1"].decode("utf-8", "replace").split("\n")
                b = r.get("f2b", b"").decode("utf-8", "replace").split("\n")
                k = first_diff(a, b)
                self.add(i, "f2", "formatting the output again changes it (%s) at line %d: %r -> %r" % (
                    r["f2"], k + 1, a[k][:120] if 0 <= k < len(a) else "", b[k][:120] if 0 <= k < len(b) else ""))
            # ---- comments, implementation alone
            tin = parse_raw(self.raw_in[id(it)])
            tout = parse_raw(self.raw_out.get(i))
            for t in tin:
                if t[0] == "T" and t[1] == "STRING":
                    self.n_string_tokens += 1
                    if "\n" in t[2]:
                        self.n_multiline_strings += 1
                        if " \n" in t[2] or "\t\n" in t[2] or "\r\n" in t[2]:
                            self.n_trailing_blank_strings += 1
            conf = full(c)
            cin = [py_restyle(conf["comment_style"], x) for x in documented_comments(tin)]
            cout = [t[2] for t in tout if t[0] == "C"]
            self.stats["comments_checked"] += 1
            self.stats["comments_total"] += len(cin)
            for x in cin:
                if x.startswith("/*"):
                    self.n_ml_comments += "\n" in x
                    self.n_empty_comments += x.strip("/* \t") == ""
                else:
                    self.n_line_comments_ending_in_block_end += x.endswith("*/")
                    self.n_empty_comments += x.strip("#/ \t") == ""
                self.n_long_comments += len(x) > 4096
            if it["origin"] == "scale":
                self.max_token_bytes = max([self.max_token_bytes] + [len(t[2]) for t in tin])
                self.max_output_line_bytes = max([self.max_output_line_bytes] + [len(l) for l in r["f1"].split(b"\n")])
            if conf["sort_declaration"] or conf["sort_declaration_property"]:
                same = sorted(cin) == sorted(cout)
            else:
                same = cin == cout
            tail = [py_restyle(conf["comment_style"], x) for x in tail_comments(tin)]
            if tail:
                self.n_tail_inputs += 1
            if not same:
                k = first_diff(cin, cout)
                missing = [x for x in cin if cin.count(x) > cout.count(x)]
                extra = [x for x in cout if cout.count(x) > cin.count(x)]
                self.add(i, "comments", "comment sequence differs at #%d: source %r, formatted %r; lost %r duplicated/new %r" % (
                    k, cin[k][:60] if k < len(cin) else None, cout[k][:60] if k < len(cout) else None, missing[:3], extra[:3]))
            # ---- correspondence with the token model
            if i in self.model_out:
                mr = self.model_out[i]
                self.stats["model_compared"] += 1
                if mr is None or mr.startswith(("hang", "died", "badreq", "stackoverflow")):
                    self.add(i, "model", "model driver failed: %s" % str(mr)[:100])
                else:
                    m = parse_raw(mr)
                    ms = [(t[1], t[2]) for t in m if t[0] == "T"]
                    os_ = [(t[1], t[2]) for t in tout if t[0] == "T"]
                    mc = [t[2] for t in m if t[0] == "C"]
                    good = True
                    if i in self.perm_only:
                        if token_runs(ms) != token_runs(os_):
                            good = False
                            a, b = token_runs(ms), token_runs(os_)
                            k = first_diff(a, b)
                            self.add(i, "tokens_sig", "sort_declaration_property: the token runs between ; , { } of the formatted text are not a permutation of those of norm(tokens of the source): model %r | formatter %r" % (
                                a[k] if k < len(a) else None, b[k] if k < len(b) else None))
                        if sorted(mc) != sorted(cout):
                            good = False
                            self.add(i, "tokens_com", "sort_declaration_property: the comments of the formatted text are not those of norm(tokens of the source) as a multiset")
                        if good:
                            self.stats["model_agree"] += 1
                        continue
                    if ms != os_:
                        good = False
                        k = first_diff(ms, os_)
                        self.add(i, "tokens_sig", "significant tokens of the formatted text differ from norm(tokens of the source) at #%d: model %s | formatter %s" % (
                            k, " ".join("%s‹%s›" % x for x in ms[max(0, k - 4):k + 4]), " ".join("%s‹%s›" % x for x in os_[max(0, k - 4):k + 4])))
                    if mc != cout:
                        good = False
                        k = first_diff(mc, cout)
                        self.add(i, "tokens_com", "comments of the formatted text differ from those of norm(tokens of the source) at #%d: model %r | formatter %r" % (
                            k, mc[k][:60] if k < len(mc) else None, cout[k][:60] if k < len(cout) else None))
                    if good and [(t[0], t[2]) for t in m] != [(t[0], t[2]) for t in tout]:
                        good = False
                        self.add(i, "tokens_order", "comments and tokens interleave differently in the formatted text and in norm(tokens of the source)")
                    if good:
                        self.stats["model_agree"] += 1

    # a failure on an input with line comments between the tokens of a statement is the recorded finding
    # exactly when the same program with those comments in block style passes every oracle
    def known_facts(self, i):
        it, lab, c = self.pairs[i]
        tw = it.get("twin")
        if tw is None:
            return None
        j = self.index.get((id(tw), cj(c)))
        if j is None or self.res[j]["status"] != "ok" or any(not d.get("facts") for _, _, d in self.fail.get(j, [])):
            return None
        return {"construct": "line-comment-inline"}

    def replay_of(self, i, shrink_aspect=None):
        it, lab, c = self.pairs[i]
        rep = {"label": it["label"], "config": full(c), "config_label": lab, "source_bytes": len(it["src"]),
               "source_sha256": hashlib.sha256(it["src"]).hexdigest(),
               "source": it["src"].decode("utf-8", "replace")[:6000],
               "formatted": self.res[i].get("f1", b"").decode("utf-8", "replace")[:6000]}
        if shrink_aspect:
            pred = {"crash": lambda r: r["status"] not in ("ok", "parseerr"),
                    "reparse": lambda r: r["status"] == "ok" and not r.get("re"),
                    "ast": lambda r: r["status"] == "ok" and r.get("re") and not r.get("ast"),
                    "f2": lambda r: r["status"] == "ok" and r.get("f2") not in ("same", None),
                    "det": lambda r: r["status"] == "ok" and not r.get("det")}.get(shrink_aspect)
            if pred and len(it["src"]) < 60000:
                try:
                    small = shrink(it["src"], c, pred, budget=3000)
                    rep["shrunk_source"] = small.decode("utf-8", "replace")
                    rep["shrunk_result"] = fmt_all([(c, small)])[0].get("raw", "")[:3000]
                except Exception as e:   # shrinking is a convenience
                    rep["shrink_error"] = repr(e)
        return rep

    def report(self, aspects, max_shrink=3):
        """turn the failures of the given aspects into violations / known findings"""
        ctx = self.ctx
        shrunk = 0
        seen = {}
        for i in sorted(self.fail):
            for aspect, text, details in self.fail[i]:
                if aspect not in aspects:
                    continue
                facts = details.get("facts") or self.known_facts(i)
                key = aspect + ":" + text[:50]
                first = key not in seen
                seen[key] = seen.get(key, 0) + 1
                it, lab, c = self.pairs[i]
                what = "%s [%s; config %s]" % (text, it["label"], lab)
                if facts is None and first and shrunk < max_shrink:
                    rep = self.replay_of(i, aspect)
                    shrunk += 1
                else:
                    rep = self.replay_of(i)
                rep["aspect"] = aspect
                ctx.violation(what, rep, facts)
        return seen

    def second_process(self, sample):
        """C14 determinism across processes: format again in a fresh implrun process"""
        idx = self.ok if sample >= len(self.ok) else self.ctx.rng.sample(self.ok, sample)
        reqs = ["run %s %s" % (cj(self.pairs[i][2]), self.pairs[i][0]["src"].hex()) for i in idx]
        reps = par_batch([IMPL, "fmt"], reqs, hang_s=20, max_failures=40)
        n = 0
        for i, r in zip(idx, reps):
            n += 1
            if r is None or not r.startswith("ok ") or bytes.fromhex(r[3:]) != self.res[i]["f1"]:
                self.add(i, "det2", "a second process formats the same source differently")
        return n

    def model_idempotence(self):
        """evidence beside the Coq theorem: norm c (norm c ts) = norm c ts evaluated on every modelled input"""
        mrep = model_norm(self.model, [(self.pairs[i][2], self.raw_in[id(self.pairs[i][0])]) for i in self.modelled], cmd="norm2")
        bad = [i for i, r in zip(self.modelled, mrep) if r != "same"]
        return len(mrep), bad

    def coverage(self):
        ctx = self.ctx
        origins = {}
        for it in self.items:
            origins[it["origin"]] = origins.get(it["origin"], 0) + 1
        cov = dict(self.stats)
        cov.update({
            "evaluations": len(self.pairs),
            "distinct_nontrivial": len(set((it["src"], cj(c)) for it, _, c in self.pairs)),
            "inputs": len(self.items), "inputs_by_origin": origins,
            "single_option_flips": [lab for lab, _ in single_flips()],
            "decorator_slots_used": dict(sorted(getattr(ctx, "decorator").stats.items())) if hasattr(ctx, "decorator") else {},
            "decorate_failed": getattr(ctx, "decorate_failed", 0),
            "generator_stats": dict(sorted(getattr(ctx, "gen_stats", {}).items())),
            "inputs_with_inline_line_comments": sum(1 for it in self.items if it.get("twin")),
            "one_comment_per_slot_inputs": getattr(ctx, "slot_items", 0),
            "dimensions": self.dimensions(),
        })
        return cov

    def dimensions(self):
        """per-dimension counts of what this run covered (measured)"""
        by_origin, opt_values, n_opts = {}, {}, {}
        for it, lab, c in self.pairs:
            by_origin[it["origin"]] = by_origin.get(it["origin"], 0) + 1
            n_opts[len(c)] = n_opts.get(len(c), 0) + 1
            for k, v in c.items():
                opt_values["%s=%s" % (k, v)] = opt_values.get("%s=%s" % (k, v), 0) + 1
        fixed = sum(v for k, v in by_origin.items() if k in ("repo", "corpus", "focus"))
        d = dict(getattr(self.ctx, "dims", {}))
        d.update({
            "pairs_by_origin": dict(sorted(by_origin.items())),
            "pairs_not_parseable_by_origin": dict(sorted(self.parseerr_by_origin.items())),
            "pairs_on_fixed_files": fixed, "pairs_on_generated_or_decorated": len(self.pairs) - fixed,
            "pairs_by_number_of_options_changed": dict(sorted(n_opts.items())),
            "pairs_by_option_value": dict(sorted(opt_values.items())),
            "option_pairs_exhaustive": [lab for lab, _ in option_pairs()],
            "comments_in_sources": self.stats.get("comments_total", 0),
            "multi_comment_placeholders_exhaustive": sum(getattr(self.ctx, "decorator").stats_multi.values()) if hasattr(self.ctx, "decorator") else 0,
            "string_literals_compared": self.n_string_tokens,
            "multi_line_string_literals_compared": self.n_multiline_strings,
            "string_literals_with_blank_before_line_feed": self.n_trailing_blank_strings,
            "multi_line_block_comments_compared": self.n_ml_comments,
            "comments_longer_than_4096_bytes_compared": self.n_long_comments,
            "line_comments_ending_in_block_terminator_compared": self.n_line_comments_ending_in_block_end,
            "empty_comments_compared": self.n_empty_comments,
            "inputs_with_comments_behind_the_last_token": self.n_tail_inputs,
            "scale_longest_token_bytes": self.max_token_bytes,
            "scale_longest_physical_output_line_bytes": self.max_output_line_bytes,
            "workers": WORKERS,
        })
        return d

    def samples(self):
        out = []
        for i in (0, len(self.pairs) // 2, len(self.pairs) - 1):
            it, lab, c = self.pairs[i]
            out.append({"label": it["label"], "config": lab, "source": it["src"][:200].decode("utf-8", "replace"),
                        "status": self.res[i]["status"]})
        return out


TRUSTED = [
    "Coq 8.16.1 kernel (coqc); no axioms (Print Assumptions of every theorem: Closed under the global context)",
    "extraction: ExtrOcamlBasic only; OCaml 4.13.1; ocaml/common.ml + ocaml/fmt_main.ml (token <-> constructor table, config record)",
    "translator harness/cmd/trans/fmt_config.go (FormatConfig fields, yaml names, defaults -> Gen/FmtConfig.v)",
    "harness/cmd/implrun fmt.go (config JSON -> config.FormatConfig, defaults as in the struct tags), fmt_ast.go (projection of the tree and the documented rewrites expected of each option)",
    "the Go lexer is used as the observer of both the source and the formatted text (tokens, comments, the line-feed bit of a comment); it is the implementation's own lexer, checked by C01/C09",
    "modelled not verified: Model/FmtNorm.v is a hand-written token-level statement of what the formatter emits, tied by the differential run; layout (blanks, line feeds, indentation, alignment, line breaking) is outside the model and covered only by the implementation oracles (re-parse, double format)",
    "determinism of the Go formatter for a fixed tree (sync.Pool buffers, sort.Slice) is observed (twice in one process, once more in a second process), not proved",
]
