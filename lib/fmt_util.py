"""Shared by checks/c03.py, c14.py, c15.py: formatter configurations, inputs, harness calls."""
import json
import os
import vcommon as V
from gen import vclgen, decorate

# (yaml name, kind, default, other values)  -- defaults must equal config.FormatConfig's tags;
# coq/Gen/FmtConfig.v (translator) and Proofs/FmtConfigTie.v check the same list by reflexivity.
OPTIONS = [
    ("indent_width", "int", 2, [1, 4, 8]),
    ("trailing_comment_width", "int", 1, [0, 2, 4]),
    ("indent_style", "str", "space", ["tab"]),
    ("line_width", "int", 120, [-1, 1, 20, 80]),
    ("explicit_string_concat", "bool", True, [False]),
    ("sort_declaration_property", "bool", False, [True]),
    ("align_declaration_property", "bool", False, [True]),
    ("else_if", "bool", False, [True]),
    ("always_next_line_else_if", "bool", False, [True]),
    ("return_statement_parenthesis", "bool", True, [False]),
    ("sort_declaration", "bool", False, [True]),
    ("align_trailing_comment", "bool", False, [True]),
    ("comment_style", "str", "none", ["sharp", "slash"]),
    ("should_use_unset", "bool", False, [True]),
    ("indent_case_labels", "bool", False, [True]),
    ("break_compound_conditions", "bool", True, [False]),
]
DEFAULTS = {n: d for n, _, d, _ in OPTIONS}


def cj(c):
    return json.dumps(c, separators=(",", ":"), sort_keys=True)


def full(c):
    d = dict(DEFAULTS)
    d.update(c)
    return d


def single_flips():
    """the default configuration and every configuration that differs from it in one option"""
    out = [("default", {})]
    for n, _, _, others in OPTIONS:
        for v in others:
            out.append(("%s=%s" % (n, v), {n: v}))
    return out


def random_config(rng):
    c = {}
    for n, _, d, others in OPTIONS:
        if rng.random() < 0.5:
            c[n] = rng.choice(others)
    return c


def corpus(pid):
    d = os.path.join(V.VERIF, "corpus", pid)
    out = []
    if os.path.isdir(d):
        for fn in sorted(os.listdir(d)):
            if fn.endswith(".vcl"):
                conf = {}
                cf = os.path.join(d, fn[:-4] + ".json")
                if os.path.exists(cf):
                    conf = json.load(open(cf))
                out.append(("corpus/%s/%s" % (pid, fn), open(os.path.join(d, fn), "rb").read(), conf))
    return out


IMPL = os.path.join(V.BUILD, "implrun")


def fmt_all(pairs, hang_s=20):
    """pairs: [(config dict, source bytes)] -> parsed replies of `implrun fmt all`"""
    reqs = ["all %s %s" % (cj(c), s.hex()) for c, s in pairs]
    reps = V.run_batch([IMPL, "fmt"], reqs, hang_s=hang_s, max_failures=40)
    return [parse_all(r) for r in reps]


def parse_all(rep):
    """-> dict: status in {parseerr, crash, nil, hang, died, ok}; f1 bytes; det, re, ast, f2 entries"""
    d = {"raw": rep}
    if rep is None or rep.startswith(("hang", "died", "skipped")):
        d["status"] = (rep or "none").split(" ")[0]
        return d
    if rep.startswith("crash"):      # panic outside the formatter proper (parser / projection)
        d["status"] = "crash"
        d["msg"] = rep
        return d
    if rep.startswith("parseerr"):
        d["status"] = "parseerr"
        return d
    if rep.startswith("badreq"):
        raise RuntimeError("harness protocol: " + rep[:200])
    parts = rep.split(" | ")
    f = parts[0].split(" ", 2)
    if f[1] in ("crash", "nil"):
        d["status"] = f[1]
        d["msg"] = parts[0]
        return d
    d["status"] = "ok"
    d["f1"] = bytes.fromhex(f[1])
    for p in parts[1:]:
        g = p.split(" ")
        if g[0] == "det":
            d["det"] = g[1] == "same"
            if not d["det"]:
                d["f1b"] = bytes.fromhex(g[2]) if len(g) > 2 else b""
        elif g[0] == "re":
            d["re"] = g[1] == "ok"
            d["re_msg"] = " ".join(g[2:])
        elif g[0] == "ast":
            d["ast"] = g[1] == "same"
            if not d["ast"]:
                d["ast_exp"], d["ast_got"] = split_two_sexps(p[len("ast diff "):])
        elif g[0] == "f2":
            d["f2"] = g[1]
            if g[1] == "diff":
                d["f2b"] = bytes.fromhex(g[2])
            elif g[1] != "same":
                d["f2_msg"] = " ".join(g[1:])
    return d


def split_two_sexps(s):
    depth = 0
    for i, ch in enumerate(s):
        if ch == "(":
            depth += 1
        elif ch == ")":
            depth -= 1
            if depth == 0:
                return s[:i + 1], s[i + 2:]
    return s, ""


def lex_many(sources, pos=False, hang_s=20):
    reqs = [("pos " if pos else "") + s.hex() for s in sources]
    reps = V.run_batch([IMPL, "fmtlex"], reqs, hang_s=hang_s, max_failures=40)
    return [decorate.parse_fmtlex(r, with_pos=pos) if r is not None and not r.startswith(("hang", "died", "crash", "skipped")) else None
            for r in reps]


def first_diff(a, b):
    n = min(len(a), len(b))
    for i in range(n):
        if a[i] != b[i]:
            return i
    return n if len(a) != len(b) else -1


def sexp_diff(a, b, width=160):
    i = first_diff(a, b)
    if i < 0:
        return ""
    lo = max(0, i - 60)
    return "expected …%s… got …%s…" % (unhex_sexp(a[lo:i + width]), unhex_sexp(b[lo:i + width]))


def unhex_sexp(s):
    import re

    def f(m):
        try:
            return '"' + bytes.fromhex(m.group(1)).decode("utf-8", "replace") + '"'
        except ValueError:
            return m.group(0)
    return re.sub(r'"([0-9a-f]*)"', f, s)


# ------------------------------------------------------------------ inputs

FOCUS_SNIPPETS = [
    # constructs DESIGN section 7 names, and what the formatter prints through ast String()
    'sub f BOOL {\n  return req.http.a == "b";\n}\n',
    'sub f STRING {\n  return "a" req.http.b + "c";\n}\n',
    'sub f INTEGER {\n  return std.atoi("1" "2");\n}\n',
    'sub vcl_recv {\n  return (lookup);\n  return lookup;\n  return;\n}\n',
    'table t {\n  "a%20b": "c%25d",\n  "q%22": "x"\n}\n',
    'table t STRING {\n  "k": {"long " string"},\n  "k2": {xyz"delim"xyz}\n}\n',
    'director d random {\n  .quorum = 50%;\n  .retries = 3;\n  { .backend = F_a; .weight = 1; }\n  { .weight = 2; .backend = F_b; }\n}\n',
    'director d client {\n  .key = "a%20b";\n}\n',
    'include "a%20b";\ninclude "mod";\nimport foo;\n',
    'sub vcl_recv {\n  error;\n  error 404;\n  error 503 "a" "b";\n  error var.i;\n}\n',
    'backend b {\n  .host = "a";\n  .probe = {\n    .request = "GET / HTTP/1.1" "Host: x";\n    .interval = 1s; # t\n  }\n  .port = "80"; # p\n}\n',
    'backend b {\n  .b = 1;\n  .a = 2;\n\n  .d = 3;\n  .c = 4;\n  .probe = { .z = 1; .y = 2; }\n  .a = 5;\n}\n',
    'sub vcl_recv {\n  set req.http.X = "a" + -1;\n  set req.http.Y = "a" + +1;\n  set req.http.Z = "a" + !b;\n}\n',
    'sub vcl_recv {\n  set req.http.X = "a" "b" {"c"} req.http.D if(req.http.E, "f", "g") std.itoa(1);\n}\n',
    'sub vcl_recv {\n  if (a) { esi; } elsif (b) { esi; } elseif (c) { esi; } else if (d) { esi; } else { esi; }\n  remove req.http.X;\n  unset req.http.Y;\n}\n',
    'acl a {\n  "10.0.0.0"/8;\n  !"10.1.0.0"/16;\n  "::1";\n}\n',
    'sub vcl_recv {\n  switch (req.url) {\n  case "a":\n    esi;\n    break;\n  case ~ "b":\n    fallthrough;\n  default:\n    break;\n  }\n}\n',
    'sub b {\n}\nsub a {\n}\nsub vcl_log {\n}\nsub vcl_recv {\n}\nacl z {\n}\nacl y {\n}\nbackend q {\n}\ntable t {\n}\nimport x;\ninclude "i";\npenaltybox p {\n}\nratecounter r {\n}\ndirector d random {\n}\n',
]


def gather_inputs(ctx, pid, n_gen, decorated_share=0.6, density=(0.05, 0.4), line_inline_share=0.06):
    """-> list of dicts {label, src(bytes), origin, placed}"""
    rng = ctx.rng
    items = []
    for label, data, conf in corpus(pid):
        items.append({"label": label, "src": data, "origin": "corpus", "conf": conf})
    for path, data in vclgen.repo_vcl_files(V.REPO):
        items.append({"label": path, "src": data, "origin": "repo"})
    for i, s in enumerate(FOCUS_SNIPPETS):
        items.append({"label": "focus-%d" % i, "src": s.encode(), "origin": "focus"})
    g = vclgen.Gen(rng, max_depth=4)
    gen = []
    for i in range(n_gen):
        g.max_depth = rng.choice([2, 3, 4, 5])
        gen.append(g.program(rng.randint(1, 5)))
    ctx.gen_stats = g.stats
    # decorate a share of the generated programs (and of the repo files) with comments
    base = [{"label": "gen-%d" % i, "src": s.encode(), "origin": "gen"} for i, s in enumerate(gen)]
    todo = [b for b in base if rng.random() < decorated_share] + [it for it in items if it["origin"] in ("repo", "focus")]
    toks = lex_many([b["src"] for b in todo], pos=True)
    dec = decorate.Decorator(rng)
    ctx.decorator = dec
    failed = 0
    for b, tk in zip(todo, toks):
        if tk is None:
            continue
        try:
            text = b["src"].decode("utf-8")
        except UnicodeDecodeError:
            continue
        line_inline = rng.random() < line_inline_share
        out, placed = dec.decorate(text, tk, density=rng.uniform(*density), blank_lines=rng.choice([0, 0, 0.1, 0.3]),
                                   line_inline=line_inline)
        if out is None:
            failed += 1
            continue
        it = {"label": b["label"] + "+comments", "src": out.encode(), "origin": b["origin"] + "+dec", "placed": placed}
        items.append(it)
        if dec.twin is not None:
            # the same program with every line comment that sits between two tokens of a statement rewritten
            # in block style: used to attribute a failure to the known finding "line-comment-inline"
            it["inline_line_comments"] = dec.inline_line
            it["twin"] = {"label": b["label"] + "+comments(twin)", "src": dec.twin.encode(), "origin": b["origin"] + "+dec",
                          "placed": placed}
            items.append(it["twin"])
    ctx.decorate_failed = failed
    items += base
    return items


# ------------------------------------------------------------------ shrinking

def shrink(src, conf, pred, budget=6000):
    """greedy structure-aware reduction of a source text (bytes): remove brace-balanced line ranges,
    then single space-separated words, keeping pred(fmt_all result) true (unparseable candidates fail)."""
    calls = [0]

    def test(cands):
        calls[0] += len(cands)
        res = fmt_all([(conf, c) for c in cands])
        return [r["status"] != "parseerr" and bool(pred(r)) for r in res]

    def balanced_ranges(lines):
        out = []
        n = len(lines)
        for i in range(n):
            depth = 0
            for j in range(i, min(n, i + 400)):
                depth += lines[j].count(b"{") - lines[j].count(b"}")
                if depth < 0:
                    break
                if depth == 0:
                    out.append((i, j + 1))
                    if j > i:
                        break
        out.sort(key=lambda ab: -(ab[1] - ab[0]))
        return out

    def greedy(parts, join, ranges_of):
        progress = True
        while progress and calls[0] < budget:
            progress = False
            rs = ranges_of(parts)
            for k in range(0, len(rs), 64):
                chunk = rs[k:k + 64]
                oks = test([join(parts[:a] + parts[b:]) for a, b in chunk])
                hit = next((x for x, ok in enumerate(oks) if ok), None)
                if hit is not None:
                    a, b = chunk[hit]
                    parts = parts[:a] + parts[b:]
                    progress = True
                    break
                if calls[0] >= budget:
                    break
        return parts

    lines = [ln for ln in src.split(b"\n")]
    lines = greedy(lines, lambda p: b"\n".join(p), balanced_ranges)
    cur = b"\n".join(lines)
    import re
    words = re.split(rb"( +|\n)", cur)
    if len(words) < 600:
        words = greedy(words, lambda p: b"".join(p), lambda ps: [(i, i + 1) for i in range(len(ps)) if ps[i].strip()])
        cur = b"".join(words)
    return cur


# ------------------------------------------------------------------ the extracted model

FIELD_ORDER = [n for n, _, _, _ in OPTIONS]


def model_conf(c):
    f = full(c)
    out = []
    for n in FIELD_ORDER:
        v = f[n]
        out.append(("1" if v else "0") if isinstance(v, bool) else str(v))
    return ",".join(out)


def tok_str(t):
    if t["k"] == "C":
        return "C:%s:%s" % ("1" if t["lf"] else "0", t["lit"].encode("utf-8", "surrogateescape").hex())
    return "T:%s:%s" % (t["ty"], t["lit"].encode("utf-8", "surrogateescape").hex())


def model_norm(model_exe, pairs, cmd="norm", hang_s=60):
    """pairs: [(config dict, raw fmtlex reply string)] -> replies of the extracted model"""
    reqs = ["%s %s %s" % (cmd, model_conf(c), toks) for c, toks in pairs]
    return V.run_batch([model_exe], reqs, hang_s=hang_s, mem_kb=8_000_000)


def lex_raw(sources, hang_s=20):
    """raw fmtlex replies (strings) - what is passed to the model unchanged"""
    return V.run_batch([IMPL, "fmtlex"], [s.hex() for s in sources], hang_s=hang_s, max_failures=40)


def strip_flags(raw):
    """token string without the line-feed bit of comments (layout, not compared)"""
    return " ".join(("C:_:" + t[4:]) if t.startswith("C:") else t for t in raw.split(" ") if t)
