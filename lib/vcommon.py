"""Shared machinery of the /verif checks.

bin/check Cxx --tier quick|thorough  ->  checks/cxx.py:run(ctx)

Every check: (1) ensure_build(): regenerate coq/Gen from the repository, build the Go
harness from the working tree with -tags verif, build the Coq targets of the property
(full .vo build through coq_makefile) and the extracted OCaml model driver;
(2) collect the property theorems (Props/Cxx.v, Print Assumptions);
(3) run the correspondence (model vs implementation) and the direct oracle;
(4) verdict + evidence.
"""
import fcntl
import hashlib
import json
import os
import random
import re
import select
import subprocess
import sys
import time

VERIF = os.path.dirname(os.path.dirname(os.path.abspath(__file__)))
REPO = os.environ.get("VERIF_REPO", "/repo")
BUILD = os.path.join(VERIF, "build")
COQ = os.path.join(VERIF, "coq")
GOENV = dict(os.environ, GOFLAGS="-mod=mod", GOPROXY="off")
GOENV.pop("GOTOOLCHAIN", None) if os.environ.get("GOTOOLCHAIN") == "local" else None
GOENV.pop("GOSUMDB", None) if os.environ.get("GOSUMDB") == "off" else None

FORBIDDEN = re.compile(
    r"\b(Admitted|admit|Axiom|Axioms|Parameter|Parameters|Conjecture|Conjectures|Admit Obligations)\b"
    r"|Unset\s+Guard|bypass_check|Unset\s+Positivity|Unset\s+Universe|type-in-type|impredicative-set")


def log(*a):
    print(*a, file=sys.stderr, flush=True)


def sh(cmd, cwd=None, env=None, timeout=None, check=False):
    p = subprocess.run(cmd, cwd=cwd, env=env, timeout=timeout, shell=isinstance(cmd, str),
                       stdout=subprocess.PIPE, stderr=subprocess.STDOUT, text=True)
    if check and p.returncode != 0:
        raise RuntimeError("command failed: %s\n%s" % (cmd, p.stdout))
    return p.returncode, p.stdout


# --------------------------------------------------------------------------- build

def repo_tree_hash():
    """hash of the repository working tree: HEAD + every modified / untracked file"""
    h = hashlib.sha256()
    rc, head = sh(["git", "-C", REPO, "rev-parse", "HEAD"])
    h.update(head.encode())
    rc, out = sh(["git", "-C", REPO, "status", "--porcelain", "-uall"])
    for line in sorted(out.splitlines()):
        h.update(line.encode())
        path = line[3:].split(" -> ")[-1].strip().strip('"')
        fp = os.path.join(REPO, path)
        if os.path.isfile(fp):
            with open(fp, "rb") as f:
                h.update(f.read())
    return h.hexdigest()[:16]


class BuildError(Exception):
    """the repository (or harness) does not compile: exit 2, no VIOLATION line"""


class Lock:
    def __init__(self, name="build"):
        os.makedirs(BUILD, exist_ok=True)
        self.path = os.path.join(BUILD, "." + name + ".lock")

    def __enter__(self):
        self.f = open(self.path, "w")
        fcntl.flock(self.f, fcntl.LOCK_EX)
        return self

    def __exit__(self, *a):
        fcntl.flock(self.f, fcntl.LOCK_UN)
        self.f.close()


def _stamp(name):
    return os.path.join(BUILD, "stamp." + name)


def _read(path):
    try:
        with open(path) as f:
            return f.read()
    except OSError:
        return None


def _srchash(dirs):
    h = hashlib.sha256()
    for d in dirs:
        for root, _, files in sorted(os.walk(d)):
            for fn in sorted(files):
                if fn.endswith((".go", ".mod", ".ml", ".v", ".py", ".sum")):
                    p = os.path.join(root, fn)
                    h.update(p.encode())
                    with open(p, "rb") as f:
                        h.update(f.read())
    return h.hexdigest()[:16]


def build_go():
    """build trans (translator) and implrun (harness, -tags verif) against REPO's working tree"""
    hdir = os.path.join(VERIF, "harness")
    pregen_harness(hdir)
    key = repo_tree_hash() + ":" + _srchash([hdir]) + ":" + REPO
    if _read(_stamp("go")) == key and os.path.exists(os.path.join(BUILD, "implrun")):
        return
    # the harness module points at REPO through a replace directive and inherits REPO's own replaces
    gomod = os.path.join(hdir, "go.mod")
    txt = _read(gomod) or ""      # go.mod / go.sum are generated (gitignored)
    reps = re.findall(r"^replace\s+(\S+\s+=>\s+\S+\s+\S+)\s*$", open(os.path.join(REPO, "go.mod")).read(), re.M)
    new = ("module verif/harness\n\ngo 1.25.5\n\nrequire github.com/ysugimoto/falco/v2 v2.0.0\n\n"
           "replace github.com/ysugimoto/falco/v2 => %s\n" % REPO
           + "".join("replace %s\n" % r for r in reps))
    if new != txt:
        open(gomod, "w").write(new)
    sumsrc = os.path.join(REPO, "go.sum")
    if os.path.exists(sumsrc):
        with open(sumsrc) as f, open(os.path.join(hdir, "go.sum"), "w") as g:
            g.write(f.read())
    for target, tags in (("trans", []), ("implrun", ["-tags", "verif"]), ("falco", ["-tags", "verif"])):
        pkg = "./cmd/" + target if target != "falco" else "github.com/ysugimoto/falco/v2/cmd/falco"
        rc, out = sh(["go", "build"] + tags + ["-o", os.path.join(BUILD, target), pkg], cwd=hdir, env=GOENV, timeout=900)
        if rc != 0:
            raise BuildError("go build %s failed:\n%s" % (target, out))
    if REPO != "/repo" and txt is not None:   # keep /verif clean when VERIF_REPO points at a scratch tree
        open(gomod, "w").write(txt)
    open(_stamp("go"), "w").write(key)


def regen():
    """T/O ties: regenerate coq/Gen/*.v from the repository (written only when changed)"""
    gen = os.path.join(COQ, "Gen")
    os.makedirs(gen, exist_ok=True)
    rc, out = sh([os.path.join(BUILD, "trans"), REPO, gen], timeout=300)
    if rc != 0:
        raise BuildError("translator failed:\n" + out)
    if "generator(s) failed" in out:
        # a generator that cannot follow the source writes a non-compiling stub for ITS file only:
        # the properties stated over that table stop checking, every other check is unaffected
        log(out.strip()[-600:])
    # O ties: lib/obs_<name>.py with observe(gen_dir) runs the real code (build/implrun) over a
    # finite domain and writes the observed table(s) into coq/Gen (only when changed)
    import importlib
    libdir = os.path.join(VERIF, "lib")
    if libdir not in sys.path:
        sys.path.insert(0, libdir)
    for fn in sorted(os.listdir(libdir)):
        if fn.startswith("obs_") and fn.endswith(".py"):
            mod = importlib.import_module(fn[:-3])
            try:
                mod.observe(gen)
            except BuildError:
                raise
            except Exception as e:      # the observation itself broke: only its own tables become stubs
                log("observer %s failed: %r" % (fn, e))
                for name in getattr(mod, "OUTPUTS", []):
                    with open(os.path.join(gen, name), "w") as f:
                        f.write("(* OBSERVATION FAILED - the tie to the source is broken: %s *)\n"
                                "Definition observation_of_%s_failed : False := I.\n"
                                % (str(e).replace("*)", "* )").replace("\n", " ")[:300], name[:-2]))


def coq_project():
    """(re)write _CoqProject from the .v files present and run coq_makefile when the list changed"""
    files = []
    for sub in ("Base", "Gen", "Model", "Proofs", "Props", "Extract"):
        d = os.path.join(COQ, sub)
        if os.path.isdir(d):
            for fn in sorted(os.listdir(d)):
                if fn.endswith(".v") and not fn.startswith("."):
                    files.append(sub + "/" + fn)
    txt = "-R . Falco\n" + "\n".join(files) + "\n"
    p = os.path.join(COQ, "_CoqProject")
    if _read(p) != txt or not os.path.exists(os.path.join(COQ, "Makefile")):
        open(p, "w").write(txt)
        sh(["coq_makefile", "-f", "_CoqProject", "-o", "Makefile"], cwd=COQ, check=True)
    return files


def coq_make(targets, timeout=1500):
    """full .vo build of the given targets (and their dependencies); returns (ok, log)"""
    coq_project()
    rc, out = sh(["timeout", str(timeout), "make", "-j16"] + targets, cwd=COQ, timeout=timeout + 30)
    return rc == 0, out


def coq_props(pid, timeout=600):
    """compile Props/<pid>.v on its own to capture Print Assumptions; returns dict"""
    src = os.path.join(COQ, "Props", pid + ".v")
    rc, out = sh(["timeout", str(timeout), "coqc", "-R", ".", "Falco", "Props/%s.v" % pid], cwd=COQ, timeout=timeout + 30)
    text = open(src).read()
    theorems = re.findall(r"^\s*(?:Theorem|Corollary)\s+([A-Za-z0-9_']+)", text, re.M)
    assumptions = {}
    # "Print Assumptions x." prints either "Closed under the global context" or "Axioms:\n ..."
    blocks = re.split(r"(?=Closed under the global context|Axioms:)", out)
    printed = [b.strip() for b in blocks if b.startswith(("Closed under", "Axioms:"))]
    names = re.findall(r"Print Assumptions\s+([A-Za-z0-9_']+)", text)
    for n, b in zip(names, printed):
        assumptions[n] = "closed" if b.startswith("Closed") else b
    return {"ok": rc == 0, "log": out, "theorems": theorems, "assumptions": assumptions}


def scan_forbidden(files):
    """no Admitted/admit/Axiom/Parameter/... anywhere in the development"""
    hits = []
    for rel in files:
        p = os.path.join(COQ, rel)
        txt = open(p).read()
        txt = re.sub(r"\(\*.*?\*\)", "", txt, flags=re.S)   # comments may mention the words
        for m in FORBIDDEN.finditer(txt):
            hits.append("%s: %s" % (rel, m.group(0)))
    return hits


def build_ocaml(name, extract_v, mains):
    """extract (coqc on Extract/<extract_v>) and build build/modelrun_<name>"""
    odir = os.path.join(BUILD, "ocaml_" + name)
    os.makedirs(odir, exist_ok=True)
    exe = os.path.join(BUILD, "modelrun_" + name)
    vo_deps = _srchash([os.path.join(COQ, "Model"), os.path.join(COQ, "Base"), os.path.join(COQ, "Gen"),
                        os.path.join(COQ, "Extract"), os.path.join(VERIF, "ocaml")])
    if _read(_stamp("ocaml_" + name)) == vo_deps and os.path.exists(exe):
        return exe
    rc, out = sh(["coqc", "-R", COQ, "Falco", os.path.join(COQ, "Extract", extract_v)], cwd=odir, timeout=600)
    if rc != 0:
        raise BuildError("extraction failed:\n" + out)
    for m in ["common.ml"] + mains:
        with open(os.path.join(VERIF, "ocaml", m)) as f, open(os.path.join(odir, m), "w") as g:
            g.write(f.read())
    mls = [name + "_model.ml"]
    srcs = ["common.ml"]
    for ml in mls:
        srcs += [ml + "i", ml]
    srcs += mains
    rc, out = sh(["ocamlfind", "ocamlopt", "-O2", "-w", "-a"] + srcs + ["-o", exe], cwd=odir, timeout=600)
    if rc != 0:
        raise BuildError("ocaml build failed:\n" + out)
    open(_stamp("ocaml_" + name), "w").write(vo_deps)
    return exe


# Extracted model drivers are discovered by convention:
#   ocaml/<name>_main.ml  +  coq/Extract/Extract_<name>.v (which must `Extraction "<name>_model.ml" ...`)
def ocaml_drivers():
    out = []
    d = os.path.join(VERIF, "ocaml")
    for fn in sorted(os.listdir(d)):
        if fn.endswith("_main.ml"):
            name = fn[:-len("_main.ml")]
            out.append((name, "Extract_%s.v" % name, [fn]))
    return out


def driver(name):
    """path of build/modelrun_<name>, (re)built when the model, the extraction or the glue changed"""
    for n, ev, mains in ocaml_drivers():
        if n == name:
            return build_ocaml(n, ev, mains)
    raise KeyError(name)


# --------------------------------------------------------------------------- batches

def run_batch(cmd, requests, hang_s=5.0, env=None, mem_kb=4_000_000, label="", max_failures=6, confirm_hangs=True):
    """see _run_batch; a request reported as `hang` is re-run ALONE with four times the limit before the
    hang is believed (a loaded machine must not turn a slow request into an alarm)"""
    replies = _run_batch(cmd, requests, hang_s, env, mem_kb, label, max_failures)
    if confirm_hangs:
        # a worker that `died` may have died of its address-space limit, of load, or of an earlier request of
        # the batch: the request is re-run ALONE in a fresh worker and only a death that repeats is believed
        confirmed = 0
        for i, r in enumerate(replies):
            if r is not None and r.startswith("died") and confirmed < 2:
                # (once two deaths of a batch have repeated alone the others are believed: a genuinely
                # crashing implementation must not cost one long re-run per input)
                again = _run_batch(cmd, [requests[i]], hang_s * 2 + 5, env, mem_kb, label, 1)
                if again and again[0] is not None and not again[0].startswith("died") and again[0] != "hang":
                    log("note: a worker death was not confirmed when the request ran alone (%s): %s" % (label or cmd[-1], r[:120]))
                    replies[i] = again[0]
                else:
                    confirmed += 1
        for i, r in enumerate(replies):
            if r == "hang":
                again = _run_batch(cmd, [requests[i]], hang_s * 4 + 5, env, mem_kb, label, 1)
                if again and again[0] is not None and again[0] != "hang":
                    replies[i] = again[0]
        if any(r is not None and r.startswith("skipped (too many") for r in replies):
            # requests skipped after the failure cap: run them now that the slow ones are settled
            idx = [i for i, r in enumerate(replies) if r is not None and r.startswith("skipped (too many")]
            if not any(r == "hang" or (r or "").startswith("died") for r in replies):
                sub = _run_batch(cmd, [requests[i] for i in idx], hang_s * 2, env, mem_kb, label, max_failures)
                for i, r in zip(idx, sub):
                    replies[i] = r
    return replies


def _run_batch(cmd, requests, hang_s=5.0, env=None, mem_kb=4_000_000, label="", max_failures=6):
    """Send requests (strings without newline) to a line-protocol process; returns replies.
    A request on which the process dies gets 'died <tail of stderr>', one on which it makes no
    progress for hang_s seconds gets 'hang'; the process is restarted after the culprit."""
    n = len(requests)
    replies = [None] * n
    start = 0
    failures = 0
    while start < n:
        if failures >= max_failures:
            for i in range(start, n):
                replies[i] = "skipped (too many hangs/crashes in this batch)"
            break
        pre = "ulimit -s unlimited 2>/dev/null || ulimit -s 1000000 2>/dev/null; ulimit -v %d; exec " % mem_kb
        p = subprocess.Popen(["bash", "-c", pre + " ".join(map(_q, cmd))], stdin=subprocess.PIPE,
                             stdout=subprocess.PIPE, stderr=subprocess.PIPE, env=env)
        os.set_blocking(p.stdout.fileno(), False)
        os.set_blocking(p.stdin.fileno(), False)
        os.set_blocking(p.stderr.fileno(), False)
        payload = b"".join(("%d\t%s\n" % (i, requests[i])).encode() for i in range(start, n))
        sent = 0
        buf = b""
        errbuf = b""
        fatal_head = [None]      # the FIRST line of a Go fatal error / panic seen on stderr (the tail is a goroutine dump)

        def _note(chunk):
            if fatal_head[0] is None and chunk:
                for ln in chunk.decode("utf-8", "replace").splitlines():
                    if ln.startswith(("panic:", "fatal error:", "runtime:", "runtime/cgo:", "SIGABRT", "SIGSEGV", "SIGBUS", "signal ")):
                        fatal_head[0] = ln
                        break
        nxt = start
        last = time.time()
        dead = False
        stdin_open = True
        while nxt < n:
            wl = [p.stdin] if (stdin_open and sent < len(payload)) else []
            r, w, _ = select.select([p.stdout, p.stderr], wl, [], 0.2)
            if w:
                try:
                    k = os.write(p.stdin.fileno(), payload[sent:sent + 65536])
                    sent += k
                except BlockingIOError:
                    pass
                except BrokenPipeError:
                    stdin_open = False
                if sent >= len(payload) and stdin_open:
                    p.stdin.close()
                    stdin_open = False
            if p.stderr in r:
                try:
                    d = os.read(p.stderr.fileno(), 65536)
                    _note(d)
                    errbuf = (errbuf + d)[-4000:]
                except BlockingIOError:
                    pass
            if p.stdout in r:
                try:
                    d = os.read(p.stdout.fileno(), 1 << 20)
                except BlockingIOError:
                    d = None
                if d == b"":
                    dead = True
                elif d:
                    buf += d
                    last = time.time()
                    while b"\n" in buf:
                        line, buf = buf.split(b"\n", 1)
                        idx, _, rep = line.decode("utf-8", "replace").partition("\t")
                        try:
                            i = int(idx)
                        except ValueError:
                            continue
                        if i == nxt:
                            replies[i] = rep
                            nxt += 1
            if nxt >= n:
                break
            if dead or p.poll() is not None and not r:
                # drain
                try:
                    d = os.read(p.stdout.fileno(), 1 << 20)
                    if d:
                        # (bug fix: replies that arrive only in this drain read were buffered but never parsed,
                        # a short-lived process was then reported as 'died')
                        buf += d
                        while b"\n" in buf:
                            line, buf = buf.split(b"\n", 1)
                            idx, _, rep = line.decode("utf-8", "replace").partition("\t")
                            try:
                                i = int(idx)
                            except ValueError:
                                continue
                            if i == nxt:
                                replies[i] = rep
                                nxt += 1
                        if nxt >= n:
                            break
                        continue
                except (BlockingIOError, OSError):
                    pass
                try:
                    more = os.read(p.stderr.fileno(), 65536) or b""
                    _note(more)
                    errbuf = (errbuf + more)[-4000:]
                except (BlockingIOError, OSError):
                    pass
                first = errbuf.decode("utf-8", "replace").strip().splitlines()
                msg = first[0] if first else ""
                for ln in first:
                    if ln.startswith(("panic:", "fatal error:", "runtime:")):
                        msg = ln
                        break
                if fatal_head[0] is not None:
                    msg = fatal_head[0]
                replies[nxt] = "died " + msg[:200]
                nxt += 1
                failures += 1
                break
            if time.time() - last > hang_s:
                replies[nxt] = "hang"
                nxt += 1
                failures += 1
                break
        try:
            p.kill()
        except OSError:
            pass
        p.wait()
        for f in (p.stdin, p.stdout, p.stderr):
            try:
                f.close()
            except OSError:
                pass
        start = nxt
    return replies


def _q(s):
    return "'" + s.replace("'", "'\\''") + "'"


def hexs(b):
    if isinstance(b, str):
        b = b.encode()
    return b.hex()


# --------------------------------------------------------------------------- known findings

def load_known(pid):
    """known_findings.txt: 'known: property=Cxx key=<json> <text>' / 'fixed: property=Cxx <commit> <text>'"""
    known, fixed = [], []
    p = os.path.join(VERIF, "known_findings.txt")
    if not os.path.exists(p):
        return known, fixed
    for line in open(p):
        line = line.strip()
        if not line or line.startswith("#"):
            continue
        m = re.match(r"known: property=(\S+) key=(\{.*?\}) (.*)$", line)
        if m and m.group(1) == pid:
            known.append({"key": json.loads(m.group(2)), "text": m.group(3), "hit": 0})
            continue
        m = re.match(r"fixed: property=(\S+) (\S+) (.*)$", line)
        if m and m.group(1) == pid:
            fixed.append({"commit": m.group(2), "text": m.group(3)})
    return known, fixed


# --------------------------------------------------------------------------- context / verdict

class Ctx:
    def __init__(self, pid, tier, seed, replay=None):
        self.pid = pid
        self.tier = tier
        self.seed = seed
        self.rng = random.Random(seed)
        self.replay = replay
        self.t0 = time.time()
        self.violations = []       # (what, replay dict)
        self.known_hits = []       # (known entry, example)
        self.obligations = []      # (name, discharged bool, note)
        self.coverage = {}
        self.assumptions = []
        self.trusted = []
        self.samples = []
        self.known, self.fixed = load_known(pid)
        self.notes = []

    def thorough(self):
        return self.tier == "thorough"

    def obligation(self, name, ok, note=""):
        self.obligations.append((name, bool(ok), note))

    def match_known(self, facts):
        """facts: dict describing a failing case; a known entry matches when all its key items are equal"""
        for k in self.known:
            if all(facts.get(a) == b for a, b in k["key"].items()):
                k["hit"] += 1
                return k
        return None

    def violation(self, what, replay, facts=None):
        """report a violation unless it is a recorded known finding"""
        if facts is not None:
            k = self.match_known(facts)
            if k is not None:
                if k["hit"] == 1:
                    self.known_hits.append((k, replay))
                return False
        self.violations.append((what, replay))
        return True

    # ---- standard proof step shared by all properties
    def prove(self, targets=None, extra_gen_obligations=()):
        """regenerate Gen, build the property's Coq targets, record obligations.
        Returns True when every theorem of Props/<pid>.v checks."""
        pid = self.pid
        with Lock("build"):
            build_go()
            regen()
            files = coq_project()
            hits = scan_forbidden(files)
            self.obligation("no Admitted/admit/Axiom/Parameter/Conjecture/unsafe flags in coq/", not hits, "; ".join(hits[:5]))
            ok, out = coq_make((targets or []) + ["Props/%s.vo" % pid])
            self.make_log = out
            res = coq_props(pid) if ok else {"ok": False, "log": out, "theorems": [], "assumptions": {}}
        self.props = res
        if not ok:
            m = re.search(r'File "\./([^"]+)", line (\d+)[^\n]*\n(Error:[^\n]*(?:\n[^\n]+){0,6})', out)
            where = ("%s:%s %s" % (m.group(1), m.group(2), m.group(3).replace("\n", " ")[:400])) if m else out[-600:]
            self.obligation("coq build of Props/%s.vo" % pid, False, where)
            self.broken = where
            return False
        self.broken = None
        for t in res["theorems"]:
            a = res["assumptions"].get(t, "not printed")
            self.obligation("theorem %s [assumptions: %s]" % (t, a.replace("\n", " ")), res["ok"], "")
            if a not in ("closed",) and a != "not printed":
                self.assumptions.append("theorem %s depends on: %s" % (t, a.replace("\n", " ")))
        if res["ok"] and self.thorough() and os.environ.get("VERIF_NO_COQCHK") != "1":
            # independent re-check of the compiled property file and everything it depends on
            rc, out = sh(["timeout", "2400", "coqchk", "-silent", "-o", "-R", ".", "Falco", "Falco.Props." + pid],
                         cwd=COQ, timeout=2500)
            m = re.search(r"\* Axioms:(.*?)\n\s*\n", out, re.S)
            ax = " ".join((m.group(1) if m else "?").split())
            self.obligation("coqchk -silent -o Falco.Props.%s [axioms: %s]" % (pid, ax), rc == 0, out[-300:] if rc else "")
            if ax not in ("<none>",):
                self.assumptions.append("coqchk lists axioms for Props.%s: %s" % (pid, ax))
            if rc != 0:
                self.broken = "coqchk failed for Props." + pid
                return False
        return res["ok"]

    def finish(self, level="proof", rule="", extra_cov=None):
        pid = self.pid
        wall = time.time() - self.t0
        os.makedirs(os.path.join(VERIF, "evidence"), exist_ok=True)
        os.makedirs(os.path.join(VERIF, "replays"), exist_ok=True)
        nob = len(self.obligations)
        nd = sum(1 for _, ok, _ in self.obligations if ok)
        cov = {
            "obligations": nob,
            "discharged": nd,
            "checker_cmd": "cd /verif/coq && coq_makefile -f _CoqProject -o Makefile && make -j16 Props/%s.vo && coqc -R . Falco Props/%s.v   (thorough: + coqchk -silent -o)" % (pid, pid),
            "trusted_base": self.trusted,
            "obligation_list": [{"name": n, "discharged": ok, "note": note} for n, ok, note in self.obligations],
            "samples": self.samples[:12] or ["(no correspondence sample recorded)"],
            "rule": rule,
            "exhaustive": False,
        }
        cov.update(self.coverage)
        if extra_cov:
            cov.update(extra_cov)
        cov.setdefault("evaluations", 0)
        cov.setdefault("distinct_nontrivial", 0)
        # keys the evidence schema types: a check that used one of them for a breakdown keeps
        # the breakdown under <key>_detail and the schema key gets the count it can derive
        typed = {"evaluations": int, "distinct_nontrivial": int, "states": int, "transitions": int,
                 "traces_validated_against_impl": int, "obligations": int, "discharged": int, "programs": int,
                 "disagreements_checked": int, "rule": str, "checker_cmd": str, "explanation": str,
                 "samples": list, "trusted_base": list, "exhaustive": bool}
        for k, ty in typed.items():
            if k in cov and (not isinstance(cov[k], ty) or (ty is int and isinstance(cov[k], bool))):
                v = cov.pop(k)
                cov[k + "_detail"] = v
                if ty is int and isinstance(v, dict) and isinstance(v.get(k), int):
                    cov[k] = v[k]
                elif ty is int and isinstance(v, (list, dict)):
                    cov[k] = len(v)
                elif ty is str:
                    cov[k] = json.dumps(v)[:2000]
                elif ty is list:
                    cov[k] = [v]
                elif ty is bool:
                    cov[k] = bool(v)
        ev = {
            "property_id": pid, "tier": self.tier, "seed": self.seed, "level": level,
            "coverage": cov, "assumptions": self.assumptions + self.notes, "wall_s": round(wall, 2),
            "violations": len(self.violations),
        }
        with open(os.path.join(VERIF, "evidence", pid + ".json"), "w") as f:
            json.dump(ev, f, indent=1, sort_keys=True)
        for k, ex in self.known_hits:
            print("KNOWN-FINDING: property=%s %s" % (pid, k["text"]))
        for k in self.known:
            if k["hit"] == 0:
                log("note: known finding not reproduced in this run: %s" % k["text"])
        if self.violations:
            seen = set()
            for i, (what, replay) in enumerate(self.violations[:5]):
                name = "%s-%s-%d.json" % (pid, self.tier, i)
                path = os.path.join(VERIF, "replays", name)
                with open(path, "w") as f:
                    json.dump({"property": pid, "what": what, "seed": self.seed, "tier": self.tier, "replay": replay}, f, indent=1)
                tail = " no-failing-input-found" if replay.get("no_failing_input") else ""
                if what in seen:
                    continue
                seen.add(what)
                print("VIOLATION property=%s replay=%s%s" % (pid, os.path.relpath(path, VERIF), tail))
                log("  " + what[:600])
            return 1
        return 0


def main_for(run):
    """entry used by bin/check"""
    import argparse
    ap = argparse.ArgumentParser()
    ap.add_argument("pid")
    ap.add_argument("--tier", default=os.environ.get("VERIF_TIER", "quick"))
    ap.add_argument("--replay")
    a = ap.parse_args()
    seed = int(os.environ.get("VERIF_SEED", "20260925"))
    ctx = Ctx(a.pid, a.tier if a.tier in ("quick", "thorough") else "quick", seed, a.replay)
    try:
        rc = run(ctx)
    except BuildError as e:
        print("BUILD-ERROR: %s" % str(e)[:3000])
        sys.exit(2)
    sys.exit(rc)


def pregen_harness(hdir):
    """harness sources that must follow the repository at COMPILE time (lib/pregen_<name>.py: pregen(repo, harness_dir)),
    regenerated before the Go build and written only when they change"""
    import importlib
    libdir = os.path.join(VERIF, "lib")
    if libdir not in sys.path:
        sys.path.insert(0, libdir)
    for fn in sorted(os.listdir(libdir)):
        if fn.startswith("pregen_") and fn.endswith(".py"):
            importlib.import_module(fn[:-3]).pregen(REPO, hdir)
